"""Static configuration of the checks: build variants, worlds per property, run budgets."""

COMMON_DEFS_SHIP = ["-DCOMB_BLOCKS=43", "-DCOMB_TEETH=6", "-DECMULT_WINDOW_SIZE=15", "-DUSE_ASM_X86_64=1"]
ALT_DEFS = ["-DUSE_FORCE_WIDEMUL_INT64=1", "-DECMULT_WINDOW_SIZE=4", "-DCOMB_BLOCKS=2", "-DCOMB_TEETH=5"]

VARIANTS = {
    # the pinned configuration, compiler and optimisation level
    "ship": {"cc": "gcc", "cxx": "g++", "cflags": ["-O2", "-g"], "defs": COMMON_DEFS_SHIP},
    # edge + store instrumentation for the fiber scheduler and the race detector; shared object so
    # that dl_iterate_phdr yields exactly the library's writable image
    "cov": {"cc": "clang", "cxx": "clang++", "cflags": ["-O2", "-g", "-fPIC", "-fsanitize-coverage=trace-pc-guard,trace-stores"],
            "defs": COMMON_DEFS_SHIP, "shared": True},
    # sanitizers + the library's own VERIFY_CHECK assertions
    "asan": {"cc": "clang", "cxx": "clang++", "cflags": ["-O1", "-g", "-fno-omit-frame-pointer", "-fsanitize=address,undefined", "-fno-sanitize-recover=undefined"],
             "defs": COMMON_DEFS_SHIP + ["-DVERIFY"], "ldflags": ["-fsanitize=address,undefined"]},
    # sanitizers without VERIFY (for histories that inject caller misuse)
    "asan_nv": {"cc": "clang", "cxx": "clang++", "cflags": ["-O1", "-g", "-fno-omit-frame-pointer", "-fsanitize=address,undefined", "-fno-sanitize-recover=undefined"],
                "defs": COMMON_DEFS_SHIP, "ldflags": ["-fsanitize=address,undefined"]},
    # alternative arithmetic configuration: 10x26 field, 8x32 scalar, no asm, small tables
    "alt": {"cc": "gcc", "cxx": "g++", "cflags": ["-O2", "-g"], "defs": ALT_DEFS},
}

REAL = ["the whole library compiled from /repo's working tree (src/secp256k1.c, precomputed tables, all modules incl. recovery)"]
SIMULATED = ["caller threads (ucontext fibers)", "schedule / delivery order", "network", "disk", "time", "session randomness (from the seed)",
             "allocator failures (real malloc underneath)", "SHA-256 compression function when replaced (the model's)", "nonce and hash callbacks"]
COMPONENTS = {"real": REAL, "simulated_or_stubbed": SIMULATED}

LEVELS = {"C20": "exploration", "C13": "exploration", "C12": "exploration", "C15": "exploration", "C17": "exploration",
          "C14": "exploration", "C18": "exploration", "C01": "fault_enumeration", "C07": "exploration"}

MUSIG_RULE = ("one run = one seeded Plan: signer count, key multiset, tweaks, nonce API per signer, delays, faults attached to logical messages "
              "(drop/dup/flip/set/zero/ff/trunc/ext/splice/misdeliver/byzantine cancel/equivocation), crashes; non-trivial = a fault fired and an oracle "
              "comparison against the BIP-327/BIP-340 model (or the single-use model) happened after it; distinct = distinct Plan hash")

CHECKS = {
    "C01": {
        "worlds": [{"name": "sigsvc", "variants": {"quick": ["ship", "asan", "alt"], "thorough": ["ship", "asan", "alt"]},
                    "runs": {"quick": 48, "thorough": 4000}, "secondary_share": 0.25}],
        "rule": "fault enumeration at the nonce-callback seam: every run covers the complete table 160 + 6 outcome sequences (<= 3 retrying outcomes, plus six long runs of 63..1000 retrying outcomes {zero nonce, nonce >= n, nonce forcing s = 0} "
                "then {pass-through returning 1, pass-through returning another non-zero value, return 0, the caller's own nonce with the message chosen so that the raw s lies on a boundary of the low-S rule}) x 4 key classes {valid, 0, n, 2^256-1} x {ecdsa_sign, ecdsa_sign_recoverable} "
                "x 3 context kinds = 3984 cells; keys, messages (classes incl. >= n), extra data vary with the seed; evaluations = executed cells (all runs); non-trivial = the cell contains at least one injected fault (callback outcome other than plain pass-through, or an invalid key); distinct = distinct cell identity (key class, entry point, context kind, outcome sequence), counted over the run set",
        "evaluations_probe": "cells", "exhaustive_table": True, "distinct_from_cover": "fcell",
        "components": COMPONENTS,
        "assumptions": ["only the failure/retry clause of C01 is decided; verification exactness and RFC 6979 conformance over all inputs are input-space and not claimed",
                        "every seventh cell, and every cell that ends with the caller's own nonce, additionally compares the signature bytes and recovery id with the model's RFC 6979 + ECDSA (oracle strengthening, not a conformance claim)"],
    },
    "C07": {
        "worlds": [{"name": "store", "variants": {"quick": ["asan", "ship", "alt"], "thorough": ["asan", "ship", "alt"]},
                    "runs": {"quick": 4000, "thorough": 200000}, "secondary_share": 0.5}],
        "rule": "one run = one seeded Plan: 4..40 reads of stored artifacts (20 artifact types x 12 disk conditions: intact, bit rot, torn between two valid artifacts, short, extended, "
                "stale, misdirected, zero block, FF block, single-bit rot in the header bytes, single-bit rot in the last byte, a sweep over all single-bit errors of the first three bytes) each followed by parse, verify and use of whatever parsed (rewind with every combination of optional outputs and a right / wrong nonce; a third of the runs read with the static context wherever the header allows it); allocator faults on the allocating parse path; monitors: "
                "ASan/UBSan/VERIFY_CHECK (asan variant), callback counters, 0/1 returns, canaries, leak accounting; non-trivial = a disk fault altered the record and the monitors "
                "were evaluated after it; distinct = distinct Plan hash",
        "components": COMPONENTS,
        "assumptions": ["scoped claim: only byte strings that faults produce from valid artifacts are explored, not all byte strings; crafted count fields are input-space",
                        "the always-on monitors also ride on every other world; a crash or sanitizer report there fails that world's check"],
    },
    "C12": {
        "worlds": [{"name": "musig", "variants": {"quick": ["ship", "asan_nv", "alt"], "thorough": ["ship", "asan_nv", "alt"]},
                    "runs": {"quick": 6000, "thorough": 200000}, "secondary_share": 0.1}],
        "rule": MUSIG_RULE, "components": COMPONENTS,
        "assumptions": ["reference model (sim/ref) is an independent BIP-327/BIP-340 implementation, self-tested against the BIP vectors at every check",
                        "every public nonce is compared with the model's BIP-327 NonceGen (for the counter variant: any of the four plain layouts of the counter in the 32 random bytes)"],
    },
    "C13": {
        "worlds": [{"name": "nonce_api", "variants": {"quick": ["ship", "asan_nv", "alt"], "thorough": ["ship", "asan_nv", "alt"]},
                    "runs": {"quick": 40000, "thorough": 2000000}, "secondary_share": 0.1},
                   {"name": "musig", "variants": {"quick": ["ship"], "thorough": ["ship", "asan_nv"]},
                    "runs": {"quick": 3000, "thorough": 150000}, "secondary_share": 0.1}],
        "rule": MUSIG_RULE + "; nonce_api: histories of 1..12 API calls with attached argument faults over a pool of secret-nonce slots against a single-use model",
        "components": COMPONENTS,
        "assumptions": ["copying or serialising a secret nonce (documented misuse) is out of scope", "callbacks return (no longjmp out of the illegal callback)"],
    },
    "C14": {
        "worlds": [{"name": "swap", "variants": {"quick": ["ship", "asan", "alt"], "thorough": ["ship", "asan", "alt"]},
                    "runs": {"quick": 10000, "thorough": 500000}, "secondary_share": 0.15}],
        "rule": "one run = one seeded Plan: 1..4 concurrent adaptor-signature swaps (key/message classes incl. 1, n-1, 0, >= n), nonce-callback faults, erased key records, "
                "network faults incl. misdelivery between swaps and third-party s-malleation of the published signature; non-trivial = a fault fired and a provenance/model "
                "comparison happened after it; distinct = distinct Plan hash",
        "components": COMPONENTS,
        "assumptions": ["beyond what corruption and misdelivery produce, crafted adaptor signatures are limited to the auditor's types (honest, R.x = n, s' = 0, s' = n, s' + n, tiny s', other key, other message, negated R'); other crafted scalars / points are input-space and not decided",
                        "every verification verdict is compared with the reference model (parse rules, DLEQ proof, adaptor equation) as well as with provenance"],
    },
    "C15": {
        "worlds": [{"name": "aex", "variants": {"quick": ["ship", "asan", "alt"], "thorough": ["ship", "asan", "alt"]},
                    "runs": {"quick": 8000, "thorough": 400000}, "secondary_share": 0.1}],
        "rule": "one run = one seeded Plan: 1..6 anti-exfil protocol runs host<->device (message classes incl. >= n, repeated host randomness), faults attached to logical "
                "messages, host/device crashes, device context events; non-trivial = a fault fired and a provenance/model comparison happened after it; distinct = distinct Plan hash",
        "components": COMPONENTS,
        "assumptions": ["the signer's nonce derivation is library specific and not recomputed by the model; the host's hash commitment and the commitment check r = x(R0 + H(R0 || datum) G) are (reference model), "
                        "every signature is checked against it together with eight single-bit mutations of datum, r and opening at plan-derived positions; other oracles are provenance based "
                        "(what the device actually produced for which inputs), ECDSA validity in the reference model and nonce-uniqueness with key extraction"],
    },
    "C17": {
        "worlds": [{"name": "halfagg", "variants": {"quick": ["ship", "asan", "alt"], "thorough": ["ship", "asan", "alt"]},
                    "runs": {"quick": 8000, "thorough": 400000}, "secondary_share": 0.3}],
        "rule": "one run = one seeded Plan: 0..64 signed triples, a delivery schedule that determines the batch split of incremental aggregation, per-step buffer capacities, "
                "empty batches, aggregator crashes (resume from persisted bytes), faults on triples / final aggregate / (key,msg) list; non-trivial = a fault fired and a comparison with the "
                "half-aggregation model happened after it; distinct = distinct Plan hash",
        "components": COMPONENTS,
        "assumptions": ["the reference model implements the half-aggregation draft equation; s >= n rejection cannot be exercised by any constructible input on the real group (see property text)"],
    },
    "C18": {
        "worlds": [{"name": "xdh", "variants": {"quick": ["ship", "asan", "alt"], "thorough": ["ship", "asan", "alt"]},
                    "runs": {"quick": 10000, "thorough": 500000}, "secondary_share": 0.15}],
        "rule": "one run = one seeded Plan: 1..4 two-party sessions (plain ECDH with compressed/uncompressed/hybrid keys, or ElligatorSwift with create/encode), every hasher choice "
                "incl. a failing callback, erased secret-key records, role confusion, network faults incl. zero/FF fill and misdelivery; non-trivial = a fault fired and a comparison "
                "with the group-law model happened after it; distinct = distinct Plan hash",
        "components": COMPONENTS,
        "assumptions": ["the model implements XSwiftEC per BIP-324 and the group law independently; the u^3+t^2+7=0 family and single-coordinate zeros are input-space and reached only through zero/FF-filled records"],
    },
    "C20": {
        "worlds": [
            {"name": "ctx", "variants": {"quick": ["cov", "ship", "alt"], "thorough": ["cov", "ship", "alt", "asan"]},
             "runs": {"quick": 6000, "thorough": 150000}, "secondary_share": 0.25, "cross_variant": True},
        ],
        "rule": "one run = one seeded Plan: context-lifecycle history + static-context pass + rounds of 2..16 fibers on one shared context "
                "pre-empted at seeded basic-block edges; non-trivial = at least one fault/pre-emption/writer op fired and an output comparison "
                "against the golden bytes happened after it; distinct = distinct Plan hash",
        "components": COMPONENTS,
        "assumptions": ["fibers are sequentially consistent and switch only at basic-block edges and seam callbacks",
                        "stores made by inline asm or libc memcpy/memset are seen only through the snapshot hash at every switch",
                        "golden outputs come from the same build (self-referential oracle)"],
    },
}
