#!/usr/bin/env python3
"""Prove the simulator deterministic: run the same seeds several times (different worker counts, fresh
processes, ASLR on/off) and diff the per-run history and schedule hashes.
usage: tools/determinism.py [N runs per world, default 2000] [worlds...]"""
import sys, os, json, subprocess, importlib.machinery, importlib.util
VERIF = os.path.dirname(os.path.dirname(os.path.abspath(__file__)))
loader = importlib.machinery.SourceFileLoader("check", os.path.join(VERIF, "bin", "check"))
spec = importlib.util.spec_from_loader("check", loader); chk = importlib.util.module_from_spec(spec); loader.exec_module(chk)

def sweep(world, variant, exe, n, jobs, seed):
    res, sus = chk.run_batch(world, variant, exe, n, 0, seed, jobs, samples=0)
    if sus:
        print("  suspects (worker deaths):", len(sus))
    return {i: (r["hh"], r["sh"], r["ok"], r.get("ph")) for i, r in res.items()}

def main():
    n = int(sys.argv[1]) if len(sys.argv) > 1 and sys.argv[1].isdigit() else 2000
    want = [a for a in sys.argv[1:] if not a.isdigit()]
    chk.notstatic_list()
    worlds = {}
    for pid, spec_ in chk.CHECKS.items():
        for w in spec_["worlds"]:
            for v in w["variants"]["quick"]:
                worlds[(w["name"], v)] = True
    bad = 0
    report = []
    for (world, variant) in sorted(worlds):
        if want and world not in want:
            continue
        exe = chk.build_worker(variant)
        nn = n if world not in ("sigsvc",) else max(8, n // 100)
        a = sweep(world, variant, exe, nn, 16, 12345)
        b = sweep(world, variant, exe, nn, 3, 12345)
        # third pass with ASLR disabled for the workers
        os.environ["VERIF_WORKER_PREFIX"] = "setarch -R"
        c = sweep(world, variant, exe, nn, 7, 12345)
        os.environ.pop("VERIF_WORKER_PREFIX", None)
        diffs = [i for i in a if a[i] != b.get(i) or a[i] != c.get(i)]
        missing = len(set(a) ^ set(b)) + len(set(a) ^ set(c))
        print("%-10s %-8s runs=%d  divergent=%d  missing=%d  distinct histories=%d" % (world, variant, len(a), len(diffs), missing, len({v[0] for v in a.values()})))
        report.append({"world": world, "variant": variant, "runs": len(a), "passes": ["16 workers", "3 workers", "7 workers, ASLR off"], "divergent": len(diffs), "missing": missing})
        if diffs or missing:
            bad += 1
            print("   first divergent indices:", diffs[:10])
    json.dump(report, open(os.path.join(VERIF, "evidence", "determinism.json"), "w"), indent=1)
    print("DETERMINISM", "FAILED" if bad else "OK")
    return 1 if bad else 0

if __name__ == "__main__":
    sys.exit(main())
