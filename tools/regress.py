#!/usr/bin/env python3
"""Run every seeded break and every self-made mutant against the check of its property (quick budget) and record
which are flagged.  usage: tools/regress.py [seeded|mutants|all] [streams]  -> writes seeded/results.json
(streams > 1 runs that many patches at a time, each check with 16/streams workers)"""
import sys, os, json, glob, subprocess, re, time, threading
VERIF = os.path.dirname(os.path.dirname(os.path.abspath(__file__)))
what = sys.argv[1] if len(sys.argv) > 1 else "all"
jobs = []
if what in ("seeded", "all"):
    for d in sorted(glob.glob(os.path.join(VERIF, "seeded", "C*-*"))):
        jobs.append((os.path.basename(d), os.path.join(d, "patch.diff"), os.path.basename(d)[:3]))
if what in ("mutants", "all"):
    for f in sorted(glob.glob(os.path.join(VERIF, "mutants", "*.diff"))):
        n = os.path.basename(f)[:-5]
        pid = n[:3].upper() if re.match(r"c\d\d_", n) else {"finding_A_reverted": "C20", "finding_B_reverted": "C14"}.get(n)
        if pid:
            jobs.append((n, f, pid))
out = {}
resf = os.path.join(VERIF, "seeded", "results.json")
if os.environ.get("RESUME") and os.path.exists(resf):
    out = json.load(open(resf))
    jobs = [j for j in jobs if j[0] not in out]
if os.environ.get("ONLY"):
    order = os.environ["ONLY"].split(",")
    jobs = sorted([j for j in jobs if j[0] in order], key=lambda j: order.index(j[0]))
streams = int(sys.argv[2]) if len(sys.argv) > 2 else 1
lock = threading.Lock()
todo = list(jobs)
def one(name, patch, pid):
    t0 = time.time()
    extra = ["--runs", "16"] if pid == "C01" else []
    if name == "c20_alt_only_ishigh":
        extra = ["--tier", "thorough", "--runs", "400"]
    if streams > 1:
        extra += ["--jobs", str(max(2, 16 // streams))]
    env = dict(os.environ, VERIF_RUN_TIMEOUT="60")
    p = subprocess.run([os.path.join(VERIF, "tools", "mutest.sh"), patch, pid] + extra, stdout=subprocess.PIPE, stderr=subprocess.STDOUT, text=True, env=env)
    classes = re.findall(r"class=(\S+) site=(.*)", p.stdout)
    m = re.search(r"rc=(\d+)", p.stdout)
    rc = int(m.group(1)) if m else -1
    with lock:
        out[name] = {"check": pid, "rc": rc, "flagged": rc == 1, "classes": [c[0] + " @ " + c[1][:80] for c in classes][:3], "wall_s": round(time.time() - t0, 1)}
        print(name, pid, "rc=%d" % rc, out[name]["classes"][:1], flush=True)
        json.dump(out, open(os.path.join(VERIF, "seeded", "results.json"), "w"), indent=1, sort_keys=True)
def worker():
    while True:
        with lock:
            if not todo:
                return
            j = todo.pop(0)
        one(*j)
ts = [threading.Thread(target=worker) for _ in range(streams)]
for t in ts: t.start()
for t in ts: t.join()
print("flagged %d of %d" % (sum(1 for v in out.values() if v["flagged"]), len(out)))
