#!/usr/bin/env python3
"""usage: tools/benign.py [streams] [names...]
False-alarm hunt: run every check against every property-preserving patch in benign/ (made by independent
sub-agents who saw only the property texts). Any exit code other than 0 is an alarm on code where the
properties hold and must be analysed.  Writes benign/results.json."""
import sys, os, json, glob, subprocess, re, time, threading
VERIF = os.path.dirname(os.path.dirname(os.path.abspath(__file__)))
CHECKS = ["C01", "C07", "C12", "C13", "C14", "C15", "C17", "C18", "C20"]
args = sys.argv[1:]
streams = 1
if args and args[0].isdigit():
    streams = int(args[0]); args = args[1:]
only = args
out = {}
resf = os.path.join(VERIF, "benign", "results.json")
if os.path.exists(resf) and only:
    out = json.load(open(resf))
todo = []
for d in sorted(glob.glob(os.path.join(VERIF, "benign", "B*-*"))):
    name = os.path.basename(d)
    if only and name not in only:
        continue
    for pid in CHECKS:
        todo.append((name, d, pid))
lock = threading.Lock()
def one(name, d, pid):
    key = name + "/" + pid
    extra = ["--runs", "16"] if pid == "C01" else []
    if streams > 1:
        extra += ["--jobs", str(max(2, 16 // streams))]
    env = dict(os.environ, VERIF_RUN_TIMEOUT="90")
    p = subprocess.run([os.path.join(VERIF, "tools", "mutest.sh"), os.path.join(d, "patch.diff"), pid] + extra, stdout=subprocess.PIPE, stderr=subprocess.STDOUT, text=True, env=env)
    m = re.search(r"rc=(\d+)", p.stdout)
    rc = int(m.group(1)) if m else -1
    classes = re.findall(r"class=(\S+) site=(.*)", p.stdout)
    with lock:
        out[key] = {"rc": rc, "alarm": rc != 0, "classes": [c[0] + " @ " + c[1][:100] for c in classes][:3], "tail": p.stdout[-400:] if rc != 0 else ""}
        print(key, "rc=%d" % rc, out[key]["classes"][:1], flush=True)
        json.dump(out, open(resf, "w"), indent=1, sort_keys=True)
def worker():
    while True:
        with lock:
            if not todo:
                return
            j = todo.pop(0)
        one(*j)
ts = [threading.Thread(target=worker) for _ in range(streams)]
for t in ts: t.start()
for t in ts: t.join()
print("alarms: %d of %d" % (sum(1 for v in out.values() if v["alarm"]), len(out)))
