#!/bin/bash
# usage: tools/confirm_seeded.sh <worktree> <k>   -> confirms a sub-agent's break: suite passes with the patch,
# demo fails with it and passes without it. Leaves the worktree at HEAD, removes _build.
wt=$1; k=$2; B=$wt/BREAK/$k
cd "$wt" || exit 2
git checkout -q -- . ; rm -rf _build
echo "== demo on HEAD"; ( bash "$B/run_demo.sh" > "$B/confirm_demo_head.log" 2>&1 ); echo "demo_head_rc=$?"
git apply "$B/patch.diff" || { echo "APPLY-FAILED"; exit 2; }
echo "== suite with patch"; ./BUILD_AND_TEST.sh > "$B/confirm_suite.log" 2>&1; tail -3 "$B/confirm_suite.log"
grep -q "100% tests passed" "$B/confirm_suite.log" && echo "suite_pass=1" || echo "suite_pass=0"
echo "== demo with patch"; ( bash "$B/run_demo.sh" > "$B/confirm_demo_patch.log" 2>&1 ); echo "demo_patch_rc=$?"
git checkout -q -- . ; rm -rf _build
