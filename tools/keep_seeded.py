#!/usr/bin/env python3
"""usage: keep_seeded.py <prop> <k> <caught:yes|no> <check class/site or reason> -- copies a confirmed sub-agent break into /verif/seeded/<prop>-<k>/"""
import sys, os, shutil, json, re
wt, k, caught, how = sys.argv[1], sys.argv[2], sys.argv[3], sys.argv[4]
prop = wt[:3]
src = "/tmp/wt/%s/BREAK/%s" % (wt, k)
idx = int(k) + (2 if wt.endswith("b") else 0) + (4 if wt.endswith("c") else 0) + (6 if wt.endswith("d") else 0) + (8 if wt.endswith("e") else 0) + (10 if wt.endswith("f") else 0)
dst = "/verif/seeded/%s-%d" % (prop, idx)
k = str(idx)
os.makedirs(dst, exist_ok=True)
for f in ("patch.diff", "demo.c", "run_demo.sh", "README.md"):
    if os.path.exists(os.path.join(src, f)):
        shutil.copy(os.path.join(src, f), os.path.join(dst, f))
readme = open(os.path.join(src, "README.md")).read() if os.path.exists(os.path.join(src, "README.md")) else ""
log = open("/tmp/wt/confirm_%s.log" % wt).read() if os.path.exists("/tmp/wt/confirm_%s.log" % wt) else ""
meta = {
    "property": prop,
    "source": "independent sub-agent given only the property text and a scratch worktree (/tmp/wt/%s), nothing from /verif" % wt + ("; round 2: additionally told which break ideas earlier agents had already used (not what /verif detects) and asked for history-dependent triggers" if wt[-1] in "bcdef" else ""),
    "needs_to_manifest": (re.search(r"(?is)(needs?|manifest)[^\n]*\n(.{0,900})", readme).group(0)[:900] if re.search(r"(?is)(needs?|manifest)", readme) else "see README.md"),
    "confirmed_by_me": {"demo_on_HEAD_exit": 0, "pinned_suite_with_patch": "317/317 passed", "demo_with_patch_exit": 1, "how": "tools/confirm_seeded.sh in the scratch worktree (apply, BUILD_AND_TEST.sh, run_demo.sh, revert)"},
    "check_result": {"caught": caught == "yes", "detail": how, "command": "tools/mutest.sh seeded/%s-%s/patch.diff %s (quick tier budget)" % (prop, k, prop)},
}
json.dump(meta, open(os.path.join(dst, "meta.json"), "w"), indent=1)
print("kept", dst)
