#!/bin/bash
# usage: tools/mutest.sh <patch.diff> <check-id> [extra args for bin/check]
# Applies a patch to a scratch copy of /repo's src+include (outside /repo and /verif), runs the check
# against it with its own build and output directories, prints the verdict, removes the scratch copy.
set -u
patch=$(readlink -f "$1"); id=$2; shift 2
name=$(basename "$patch" .diff)-$$
S=/root/scratch/$name
mkdir -p "$S" && cp -r /repo/src /repo/include "$S"/ || exit 2
( cd "$S" && patch -p1 -s < "$patch" ) || { echo "PATCH-FAILED"; rm -rf "$S"; exit 2; }
VERIF_REPO=$S VERIF_BUILD=$S/build VERIF_OUT=$S/out python3 /verif/bin/check "$id" "$@" > "$S/log" 2>&1
rc=$?
grep -E "VIOLATION|KNOWN-FINDING|MACHINERY|class=" "$S/log" | head -6
echo "mutest $(basename "$patch") $id rc=$rc"
if [ -n "${KEEP:-}" ]; then echo "kept $S"; else rm -rf "$S"; fi
exit $rc
