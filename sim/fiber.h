// Cooperative "caller threads": ucontext fibers pre-empted at basic-block edges of the real
// library (clang -fsanitize-coverage=trace-pc-guard) and at seam callbacks; store-level race
// detector fed by trace-stores. Who runs next is always the simulator's decision.
#pragma once
#include <ucontext.h>
#include <cstdint>
#include <functional>
#include <vector>
#include <string>
#include <map>

namespace sim {

struct Preempt { int task; int64_t call; int64_t ppm; int to; bool used; };

struct FiberTask {
    int id = 0;
    ucontext_t uc;
    uint8_t *stack = nullptr;
    size_t stack_size = 0;
    std::function<void()> fn;
    bool started = false, done = false;
    int64_t call_no = -1;        // index of the API call being executed (or last executed)
    int64_t edge = 0;            // yield points seen inside the current call
    std::vector<int64_t> edges_per_call;   // measured (dry run) or observed
    std::vector<std::pair<int64_t, int>> targets;   // (edge, to) for the current call, sorted
};

struct RaceReport {
    bool hit = false;
    int task = -1; int64_t call = -1, edge = -1;
    std::string where;   // classification: name+offset, never a raw pointer
};

struct Region { const uint8_t *lo, *hi; std::string name; int owner; };  // owner -1: shared (stores are violations), >=0 private to that task

struct Sched {
    ucontext_t main_uc;
    std::vector<FiberTask> tasks;
    int current = -1;
    bool active = false;             // inside run()
    bool detect = false;             // race detector on
    std::vector<Preempt> preempts;
    std::vector<std::vector<int64_t>> dry_edges;  // [task][call] from the sequential dry run
    std::vector<Region> regions;     // classified memory
    RaceReport race;
    std::vector<Region> lib_regions;  // library image writable ranges, watched at all times (not cleared by reset)
    int64_t global_hits = 0; std::string global_where;
    uint64_t switch_hash = 0xcbf29ce484222325ull;
    int64_t switches = 0;
    int64_t stores_seen = 0, edges_seen = 0;
    std::map<int64_t, int> guard_hits;  // static guard ids at which a pre-emption landed
    std::map<std::pair<int, int>, int> overlap;  // (api id a, api id b) pairs that overlapped
    std::function<void()> on_switch;   // snapshot check hook, runs on the scheduler stack
    static int pending_to_;            // target requested by the pre-emption that just fired

    void reset();
    void add_task(std::function<void()> fn);
    // run all tasks to completion; first = index of the task that starts
    void run(int first);
    void add_region(const void *p, size_t n, const std::string &name, int owner);
};
extern Sched g_sched;

// called by ApiScope when a fiber is current
void fiber_call_begin();
void fiber_call_end();
// generic yield point for seam callbacks (compression function, nonce/hash callbacks)
void fiber_yield_point(int64_t guard_id);
// current API id for overlap statistics
extern int g_cur_api_id;
// number of static guards in the instrumented library (0 if not instrumented)
int64_t sancov_guard_count();
// library image writable ranges (cov variant: the shared object's PT_LOAD|PF_W minus RELRO minus guards)
void collect_library_writable(std::vector<Region> &out);

}  // namespace sim
