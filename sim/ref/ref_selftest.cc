// Self-test of the reference model against vectors copied into /verif/vectors (never read from /repo).
#include "ref.h"
#include <cstdio>
#include <fstream>
#include <sstream>
extern "C" {
#include "musig_vectors.h"
}
#include "adaptor_vectors.inc"   // spec vectors of the ECDSA adaptor module (pinned tree)
#include "model_vectors.inc"   // generated once from the pinned library, see tools/genvectors.cc

namespace ref {

#define ST(cond, msg) do { if (!(cond)) { if (why) *why = std::string(msg) + " (" #cond ")"; return 1; } } while (0)

static std::array<uint8_t, 33> a33(const unsigned char *p) { std::array<uint8_t, 33> a; memcpy(a.data(), p, 33); return a; }
static std::array<uint8_t, 66> a66(const unsigned char *p) { std::array<uint8_t, 66> a; memcpy(a.data(), p, 66); return a; }
static B32 a32(const unsigned char *p) { B32 a; memcpy(a.data(), p, 32); return a; }

int selftest(std::string *why) {
    // SHA-256
    { uint8_t o[32]; sha256((const uint8_t *)"abc", 3, o);
      ST(hex(o, 32) == "ba7816bf8f01cfea414140de5dae2223b00361a396177a9cb410ff61f20015ad", "sha256 abc");
      Bytes m(1000, 'a'); sha256(m.data(), m.size(), o);
      ST(hex(o, 32) == "41edece42d63e8d9bf515a9ba6932e1c20cbc9f5a5d134645adb5db1b9737ea3", "sha256 1000 a"); }
    // group basics
    { ST(on_curve(G), "G on curve");
      Pt two = add(G, G);
      uint8_t b[33]; ser33(two, b);
      ST(hex(b, 33) == "02c6047f9441ed7d6d3045406e95c07cd85c778e4b8cef3ca7abac09b95c709ee5", "2G");
      U256 nm1 = FN.neg(U256(1));
      ST(mulG(nm1) == neg(G), "(n-1)G = -G");
      ST(mulG(FN.m).inf, "nG = inf");
      ST(FP.mul(FP.inv(U256(7)), U256(7)) == U256(1), "inverse"); }
    // BIP-340 vector 0 and 1 (from bip-0340/test-vectors.csv)
    { Bytes pk = unhex("F9308A019258C31049344F85F89D5229B531C845836F99B08601F113BCE036F9");
      Bytes msg(32, 0);
      Bytes sig = unhex("E907831F80848D1069A5371B402410364BDF1C5F8307B0084C55F1CE2DCA821525F66A4A85EA8B71E482A74F382D2CE5EBEEE8FDB2172F477DF4900D310536C0");
      ST(bip340_verify(pk.data(), msg.data(), 32, sig.data()), "bip340 vector 0");
      sig[63] ^= 1;
      ST(!bip340_verify(pk.data(), msg.data(), 32, sig.data()), "bip340 vector 0 mutated");
      pk = unhex("DFF1D77F2A671C5F36183726DB2341BE58FEAE1DA2DECED843240F7B502BA659");
      msg = unhex("243F6A8885A308D313198A2E03707344A4093822299F31D0082EFA98EC4E6C89");
      sig = unhex("6896BD60EEAE296DB48A229FF71DFE071BDE413E6D43F917DC8DCF8C78DE33418906D11AC976ABCCB20B091292BFF4EA897EFCB639EA871CFA95F6DE339E4B0A");
      ST(bip340_verify(pk.data(), msg.data(), 32, sig.data()), "bip340 vector 1"); }
    // BIP-327: key aggregation
    { const auto &v = musig_key_agg_vector;
      for (size_t c = 0; c < sizeof(v.valid_case) / sizeof(v.valid_case[0]); c++) {
          std::vector<std::array<uint8_t, 33>> pks;
          for (size_t i = 0; i < v.valid_case[c].key_indices_len; i++) pks.push_back(a33(v.pubkeys[v.valid_case[c].key_indices[i]]));
          KeyAggCtx k = keyagg(pks);
          ST(k.ok, "keyagg valid");
          uint8_t x[32]; xbytes(k.Q, x);
          ST(memcmp(x, v.valid_case[c].expected, 32) == 0, "keyagg expected");
      } }
    // ECDSA adaptor signatures: the module's spec vectors (two valid, one with a wrong proof); a crafted one verifies for the
    // key it was built for, and the model's prover and verifier agree
    for (const auto &v : ADAPTOR_VECTORS) {
        Bytes a = unhex(v.adaptor_sig), m = unhex(v.msg), pk = unhex(v.pubkey), ek = unhex(v.enckey);
        Pt X, Y;
        ST(a.size() == 162 && parse_pubkey(pk.data(), 33, &X) && parse_pubkey(ek.data(), 33, &Y), "adaptor vector parses");
        ST(adaptor_verify(a.data(), X, m.data(), Y) == (v.expect_verify != 0), "adaptor verify spec vector");
        if (v.expect_verify) { a[70] ^= 1; ST(!adaptor_verify(a.data(), X, m.data(), Y), "adaptor verify rejects altered s'"); }
    }
    { U256 x(0x1234567), y(0x7654321), k(0xabcdef1), dn(0x13579b);
      Pt X = mulG(x), Y = mulG(y);
      uint8_t msg[32]; sha256((const uint8_t *)"adaptor", 7, msg);
      U256 r = FN.reduce(mul(k, Y).x);
      uint8_t sp[32]; FN.mul(FN.inv(k), FN.add(scalar_from_be_reduce(msg), FN.mul(r, x))).to_be(sp);
      uint8_t a[162]; adaptor_craft(k, Y, sp, dn, a);
      ST(adaptor_verify(a, X, msg, Y), "crafted adaptor signature verifies");
      ST(!adaptor_verify(a, Y, msg, Y), "crafted adaptor signature fails for another key");
    }
    // sign-to-contract: the module's two fixed vectors (key 0x55.., message 0x88..): the opening is the RFC 6979 nonce point for
    // extra data H_"s2c/ecdsa/data"(datum); the commitment check accepts the resulting r for this datum and no other
    { static const char *S2C[2][2] = {
          {"1bf6fb42f41eb876c4d7aa0d67242b00baab99dc2084493e4e63277fa1f77f22", "03f030def3188c0f56fcea87435b307643f45dafe22cbc82fd56034fae97417d3a"},
          {"35199a8fbf84ad6ef69a184c1b19285befbe06e60b6264e6d373893f6855e24a", "03901717ce7c7484a2ce1b7dc7403b14e0354971393ec092a7f3e0c8e4e2d2639d"}};
      uint8_t key[32], msg[32]; memset(key, 0x55, 32); memset(msg, 0x88, 32);
      for (int c = 0; c < 2; c++) {
          Bytes d = unhex(S2C[c][0]), want = unhex(S2C[c][1]);
          uint8_t nd[32], k0[32], o33[33];
          s2c_host_commit(d.data(), nd);
          rfc6979_nonce(key, msg, nd, nullptr, 0, k0);
          Pt R0 = mulG(U256::from_be(k0)); ser33(R0, o33);
          ST(memcmp(o33, want.data(), 33) == 0, "s2c opening vector");
          // r of the tweaked nonce
          uint8_t t32[32]; Sha256 h = tagged("s2c/ecdsa/point"); h.write(o33, 33); h.write(d.data(), 32); h.finish(t32);
          Pt R = add(R0, mulG(scalar_from_be_reduce(t32))); uint8_t x[32], r32[32]; xbytes(R, x); scalar_from_be_reduce(x).to_be(r32);
          ST(s2c_verify_commit(r32, d.data(), o33), "s2c verify_commit accepts");
          d[20] ^= 4; ST(!s2c_verify_commit(r32, d.data(), o33), "s2c verify_commit rejects another datum");
      } }
    // BIP-327: NonceGen (the two vectors with 32-byte message and extra input, the only lengths the library API accepts)
    { const auto &v = musig_nonce_gen_vector;
      for (size_t c = 0; c < 2; c++) {
          const auto &t = v.test_case[c];
          uint8_t k1[32], k2[32], pn[66];
          ST(nonce_gen(t.rand_, t.has_sk ? t.sk : nullptr, t.pk, t.has_aggpk ? t.aggpk : nullptr, t.has_msg ? t.msg : nullptr, 32,
                       t.has_extra_in ? t.extra_in : nullptr, 32, k1, k2, pn), "nonce_gen ok");
          ST(memcmp(pn, t.expected_pubnonce, 66) == 0, "nonce_gen pubnonce");
          ST(memcmp(k1, t.expected_secnonce, 32) == 0 && memcmp(k2, t.expected_secnonce + 32, 32) == 0, "nonce_gen secnonce");
      } }
    // BIP-327: nonce aggregation
    { const auto &v = musig_nonce_agg_vector;
      for (size_t c = 0; c < 2; c++) {
          std::vector<std::array<uint8_t, 66>> pn{a66(v.pnonces[v.valid_case[c].pnonce_indices[0]]), a66(v.pnonces[v.valid_case[c].pnonce_indices[1]])};
          uint8_t out[66];
          ST(nonce_agg(pn, out), "nonce_agg valid");
          ST(memcmp(out, v.valid_case[c].expected, 66) == 0, "nonce_agg expected");
      }
      for (size_t c = 0; c < 3; c++) {
          std::vector<std::array<uint8_t, 66>> pn{a66(v.pnonces[v.error_case[c].pnonce_indices[0]]), a66(v.pnonces[v.error_case[c].pnonce_indices[1]])};
          uint8_t out[66];
          ST(!nonce_agg(pn, out), "nonce_agg error case");
      } }
    // BIP-327: partial signatures of the sign/verify vectors verify for their signer
    { const auto &v = musig_sign_verify_vector;
      for (size_t c = 0; c < sizeof(v.valid_case) / sizeof(v.valid_case[0]); c++) {
          const auto &vc = v.valid_case[c];
          std::vector<std::array<uint8_t, 33>> pks;
          for (size_t i = 0; i < vc.key_indices_len; i++) pks.push_back(a33(v.pubkeys[vc.key_indices[i]]));
          KeyAggCtx k = keyagg(pks);
          ST(k.ok, "sign/verify keyagg");
          SessionVals sv = session_values(k, v.aggnonces[vc.aggnonce_index], v.msgs[vc.msg_index], nullptr);
          ST(sv.ok, "session values");
          ST(partial_sig_verify(k, sv, vc.expected, v.pubnonces[0], pks[vc.signer_index].data()), "partial sig of vector verifies");
          uint8_t bad[32]; memcpy(bad, vc.expected, 32); bad[31] ^= 1;
          ST(!partial_sig_verify(k, sv, bad, v.pubnonces[0], pks[vc.signer_index].data()), "mutated partial sig fails");
      } }
    // BIP-327: tweak vectors
    { const auto &v = musig_tweak_vector;
      for (size_t c = 0; c < sizeof(v.valid_case) / sizeof(v.valid_case[0]); c++) {
          const auto &vc = v.valid_case[c];
          std::vector<std::array<uint8_t, 33>> pks;
          for (size_t i = 0; i < vc.key_indices_len; i++) pks.push_back(a33(v.pubkeys[vc.key_indices[i]]));
          KeyAggCtx k = keyagg(pks);
          ST(k.ok, "tweak keyagg");
          for (size_t i = 0; i < vc.tweak_indices_len; i++) ST(apply_tweak(k, v.tweaks[vc.tweak_indices[i]], vc.is_xonly[i]), "apply tweak");
          SessionVals sv = session_values(k, v.aggnonce, v.msg, nullptr);
          ST(sv.ok, "tweak session");
          ST(partial_sig_verify(k, sv, vc.expected, v.pubnonces[vc.nonce_indices[vc.signer_index]], pks[vc.signer_index].data()), "tweaked partial sig verifies");
      }
      { const auto &ec = v.error_case[0];
        std::vector<std::array<uint8_t, 33>> pks;
        for (size_t i = 0; i < ec.key_indices_len; i++) pks.push_back(a33(v.pubkeys[ec.key_indices[i]]));
        KeyAggCtx k = keyagg(pks);
        ST(k.ok && !apply_tweak(k, v.tweaks[ec.tweak_indices[0]], ec.is_xonly[0]), "out-of-range tweak refused"); } }
    // BIP-327: signature aggregation
    { const auto &v = musig_sig_agg_vector;
      for (size_t c = 0; c < sizeof(v.valid_case) / sizeof(v.valid_case[0]); c++) {
          const auto &vc = v.valid_case[c];
          std::vector<std::array<uint8_t, 33>> pks;
          for (size_t i = 0; i < vc.key_indices_len; i++) pks.push_back(a33(v.pubkeys[vc.key_indices[i]]));
          KeyAggCtx k = keyagg(pks);
          ST(k.ok, "sigagg keyagg");
          for (size_t i = 0; i < vc.tweak_indices_len; i++) ST(apply_tweak(k, v.tweaks[vc.tweak_indices[i]], vc.is_xonly[i]), "sigagg tweak");
          SessionVals sv = session_values(k, vc.aggnonce, v.msg, nullptr);
          std::vector<B32> ps;
          for (size_t i = 0; i < vc.psig_indices_len; i++) ps.push_back(a32(v.psigs[vc.psig_indices[i]]));
          uint8_t sig[64];
          ST(partial_sig_agg(k, sv, ps, sig), "sigagg");
          ST(memcmp(sig, vc.expected, 64) == 0, "sigagg expected");
          uint8_t q[32]; xbytes(k.Q, q);
          ST(bip340_verify(q, v.msg, 32, sig), "aggregate verifies under BIP-340");
      } }
    // vectors generated once from the pinned library (whose own suite checks it against the BIP / RFC / draft vectors)
    for (size_t i = 0; i < sizeof(MODEL_VECTORS) / sizeof(MODEL_VECTORS[0]); i++) {
        const ModelVector &mv = MODEL_VECTORS[i];
        Bytes in = unhex(mv.in), want = unhex(mv.out), got;
        std::string kind = mv.kind;
        if (kind == "ecdsa_sign") {            // in: key32 msg32 [data32] ; out: r s recid
            uint8_t r[32], s[32]; int recid = 0;
            ST(ecdsa_sign_rfc6979(in.data(), in.data() + 32, in.size() > 64 ? in.data() + 64 : nullptr, r, s, &recid), "ecdsa sign");
            got.insert(got.end(), r, r + 32); got.insert(got.end(), s, s + 32); got.push_back((uint8_t)recid);
            Pt P = mulG(U256::from_be(in.data()));
            ST(ecdsa_verify(P, in.data() + 32, r, s), "model ecdsa verify of model signature");
            Pt Rc; ST(ecdsa_recover(in.data() + 32, r, s, recid, &Rc) && Rc == P, "model recover");
        } else if (kind == "pubkey") {         // in: key32 ; out: ser33
            uint8_t b[33]; ser33(mulG(U256::from_be(in.data())), b); got.assign(b, b + 33);
        } else if (kind == "ecdh") {           // in: key32 pk33 ; out: 32
            Pt P; ST(parse_pubkey(in.data() + 32, 33, &P), "ecdh parse");
            uint8_t o[32]; ecdh_default_hash(mul(U256::from_be(in.data()), P), o); got.assign(o, o + 32);
        } else if (kind == "ellswift_decode") {  // in: ell64 ; out: ser33
            uint8_t b[33]; ser33(ellswift_decode(in.data()), b); got.assign(b, b + 33);
        } else if (kind == "ellswift_xdh324") {  // in: ell_a64 ell_b64 key32 party ; out 32
            const uint8_t *ea = in.data(), *eb = in.data() + 64, *k = in.data() + 128; int party = in[160];
            Pt peer = ellswift_decode(party ? ea : eb);
            Pt sh = mul(U256::from_be(k), peer);
            uint8_t x[32], o[32]; xbytes(sh, x); bip324_hash(ea, eb, x, o); got.assign(o, o + 32);
        } else if (kind == "halfagg") {        // in: n triples ; out: aggregate
            std::vector<Triple> t(in.size() / 128);
            for (size_t j = 0; j < t.size(); j++) { memcpy(t[j].pk, in.data() + 128 * j, 32); memcpy(t[j].msg, in.data() + 128 * j + 32, 32); memcpy(t[j].sig, in.data() + 128 * j + 64, 64); }
            ST(halfagg_aggregate(t, &got), "halfagg");
            std::vector<std::array<uint8_t, 32>> pks, msgs;
            for (auto &x : t) { pks.push_back(a32(x.pk)); msgs.push_back(a32(x.msg)); }
            ST(halfagg_verify(pks, msgs, got.data(), got.size()), "model halfagg verify");
            for (auto &x : t) ST(bip340_verify(x.pk, x.msg, 32, x.sig), "library schnorr signature verifies in the model");
        } else if (kind == "musig_adaptor") {  // in: 3 pk33, msg32, aggnonce66, adaptor33, 3 psig32, 3 pubnonce66 ; out: presig64
            std::vector<std::array<uint8_t, 33>> pks{a33(in.data()), a33(in.data() + 33), a33(in.data() + 66)};
            const uint8_t *msg = in.data() + 99, *an = msg + 32, *ad = an + 66, *ps = ad + 33, *pn = ps + 96;
            KeyAggCtx k = keyagg(pks); ST(k.ok, "adaptor keyagg");
            Pt T; ST(parse_pubkey(ad, 33, &T), "adaptor point");
            SessionVals sv = session_values(k, an, msg, &T);
            std::vector<B32> pv;
            for (int j = 0; j < 3; j++) { pv.push_back(a32(ps + 32 * j)); ST(partial_sig_verify(k, sv, ps + 32 * j, pn + 66 * j, pks[j].data()), "adaptor partial sig verifies"); }
            uint8_t sig[64]; ST(partial_sig_agg(k, sv, pv, sig), "adaptor agg"); got.assign(sig, sig + 64);
        } else {
            ST(false, "unknown vector kind");
        }
        if (got != want) { if (why) *why = "model vector " + std::to_string(i) + " (" + kind + ") mismatch: got " + hex(got) + " want " + hex(want); return 1; }
    }
    return 0;
}

}  // namespace ref
