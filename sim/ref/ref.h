// Independent reference model for the secp256k1-zkp simulation worlds.
// Shares no code with /repo. Slow and simple on purpose.
#pragma once
#include <cstdint>
#include <cstddef>
#include <cstring>
#include <string>
#include <vector>
#include <array>

namespace ref {

typedef std::vector<uint8_t> Bytes;
typedef std::array<uint8_t, 32> B32;

// ---------------------------------------------------------------- SHA-256
struct Sha256 {
    uint32_t h[8];
    uint8_t buf[64];
    uint64_t len;
    Sha256();
    void write(const uint8_t *p, size_t n);
    void write(const Bytes &b) { write(b.data(), b.size()); }
    void finish(uint8_t out[32]);
};
void sha256(const uint8_t *p, size_t n, uint8_t out[32]);
void sha256_compress(uint32_t *state, const unsigned char *blocks, size_t nblocks);  // the compression seam
Sha256 tagged(const char *tag);
void hmac_sha256(const uint8_t *key, size_t klen, const uint8_t *msg, size_t mlen, uint8_t out[32]);

// ---------------------------------------------------------------- 256-bit integers
struct U256 {
    uint64_t w[4];  // little endian limbs
    U256() { w[0] = w[1] = w[2] = w[3] = 0; }
    explicit U256(uint64_t v) { w[0] = v; w[1] = w[2] = w[3] = 0; }
    static U256 from_be(const uint8_t *b);
    void to_be(uint8_t *b) const;
    bool is_zero() const { return (w[0] | w[1] | w[2] | w[3]) == 0; }
    bool is_odd() const { return w[0] & 1; }
    bool bit(int i) const { return (w[i >> 6] >> (i & 63)) & 1; }
};
int cmp(const U256 &a, const U256 &b);
inline bool operator==(const U256 &a, const U256 &b) { return cmp(a, b) == 0; }
inline bool operator!=(const U256 &a, const U256 &b) { return cmp(a, b) != 0; }
inline bool operator<(const U256 &a, const U256 &b) { return cmp(a, b) < 0; }

// modulus of the form 2^256 - c with c < 2^130
struct Modulus {
    U256 m, c;
    U256 reduce(const U256 &a) const;                 // a mod m for any 256-bit a
    U256 add(const U256 &a, const U256 &b) const;
    U256 sub(const U256 &a, const U256 &b) const;
    U256 neg(const U256 &a) const;
    U256 mul(const U256 &a, const U256 &b) const;
    U256 sqr(const U256 &a) const { return mul(a, a); }
    U256 pow(const U256 &a, const U256 &e) const;
    U256 inv(const U256 &a) const;                    // a != 0
};
extern const Modulus FP;   // field prime p
extern const Modulus FN;   // group order n
extern const U256 HALF_N;  // (n-1)/2

// scalars: value in [0,n)
U256 scalar_from_be_reduce(const uint8_t *b, bool *overflow = nullptr);

// ---------------------------------------------------------------- group
struct Pt {
    U256 x, y;
    bool inf;
    Pt() : inf(true) {}
    Pt(const U256 &x_, const U256 &y_) : x(x_), y(y_), inf(false) {}
};
bool operator==(const Pt &a, const Pt &b);
inline bool operator!=(const Pt &a, const Pt &b) { return !(a == b); }
extern const Pt G;
bool on_curve(const Pt &p);
Pt add(const Pt &a, const Pt &b);
Pt neg(const Pt &a);
Pt mul(const U256 &k, const Pt &p);   // k any 256-bit value (taken as is, not reduced)
Pt mulG(const U256 &k);
bool lift_x(const U256 &x, Pt *out);  // even y; false if x >= p or not on curve
bool fe_sqrt(const U256 &a, U256 *r); // r^2 == a
// encodings
bool parse_pubkey(const uint8_t *in, size_t len, Pt *out);   // 33 compressed, 65 uncompressed / hybrid
void ser33(const Pt &p, uint8_t out[33]);                    // p finite
void ser65(const Pt &p, uint8_t out[65]);
void ser33_ext(const Pt &p, uint8_t out[33]);                // 33 zero bytes for infinity
bool parse33_ext(const uint8_t in[33], Pt *out);
void xbytes(const Pt &p, uint8_t out[32]);

// ---------------------------------------------------------------- BIP-340
U256 bip340_challenge(const uint8_t r32[32], const uint8_t pk32[32], const uint8_t *msg, size_t msglen);
bool bip340_verify(const uint8_t pk32[32], const uint8_t *msg, size_t msglen, const uint8_t sig64[64]);

// ---------------------------------------------------------------- ECDSA
// r,s as 32-byte big endian (already parsed scalars < n). low-S required.
bool ecdsa_verify(const Pt &pub, const uint8_t msg32[32], const uint8_t r32[32], const uint8_t s32[32]);
bool ecdsa_recover(const uint8_t msg32[32], const uint8_t r32[32], const uint8_t s32[32], int recid, Pt *out);
// RFC 6979 as used by the library: HMAC-DRBG over key || (msg mod n) || [data32] || [algo16]; counter-th output
void rfc6979_nonce(const uint8_t key32[32], const uint8_t msg32[32], const uint8_t *data32, const uint8_t *algo16, unsigned counter, uint8_t out[32]);
// one signing attempt with an explicit nonce k (32 bytes): false if k invalid, r == 0 or s == 0 (the caller retries)
bool ecdsa_sign_nonce(const U256 &d, const uint8_t msg32[32], const uint8_t k32[32], uint8_t r32[32], uint8_t s32[32], int *recid);
// full deterministic ECDSA signing per the library (default nonce function): returns false if key invalid
bool ecdsa_sign_rfc6979(const uint8_t key32[32], const uint8_t msg32[32], const uint8_t *data32, uint8_t r32[32], uint8_t s32[32], int *recid);

// ---------------------------------------------------------------- BIP-327 (MuSig2)
struct KeyAggCtx {
    Pt Q;          // aggregate (tweaked) point, finite
    U256 gacc;     // 1 or n-1
    U256 tacc;
    uint8_t L[32]; // key list hash
    bool has_second; uint8_t second33[33];
    bool ok;
};
KeyAggCtx keyagg(const std::vector<std::array<uint8_t, 33>> &pks);   // ok=false if a key is invalid or Q = inf
U256 keyagg_coeff(const KeyAggCtx &c, const uint8_t pk33[33]);
bool apply_tweak(KeyAggCtx &c, const uint8_t tweak32[32], bool xonly);  // false: tweak >= n or result infinity (ctx unchanged)
bool nonce_agg(const std::vector<std::array<uint8_t, 66>> &pubnonces, uint8_t out66[66]);  // false if a pubnonce is invalid
// BIP-327 NonceGen: sk32, aggpk32, msg, extra are optional (NULL = absent); k1/k2 receive the secret scalars (big endian),
// pubnonce66 their public points. Returns false if a derived scalar is zero (probability 2^-256).
bool nonce_gen(const uint8_t rand32[32], const uint8_t *sk32, const uint8_t pk33[33], const uint8_t *aggpk32, const uint8_t *msg, size_t msglen,
               const uint8_t *extra, size_t extralen, uint8_t k1[32], uint8_t k2[32], uint8_t pubnonce66[66]);
struct SessionVals {
    Pt R;          // final nonce (G if infinity)
    U256 b, e;
    bool ok;
};
// adaptor: optional extra point added to R1 before computing b (library extension)
SessionVals session_values(const KeyAggCtx &c, const uint8_t aggnonce66[66], const uint8_t msg32[32], const Pt *adaptor);
bool partial_sig_verify(const KeyAggCtx &c, const SessionVals &sv, const uint8_t psig32[32], const uint8_t pubnonce66[66], const uint8_t pk33[33]);
bool partial_sig_agg(const KeyAggCtx &c, const SessionVals &sv, const std::vector<B32> &psigs, uint8_t sig64[64]);

// ---------------------------------------------------------------- sign-to-contract (include/secp256k1_ecdsa_s2c.h)
// the commitment check: r == x(R0 + H_"s2c/ecdsa/point"(ser33(R0) || data32) * G) mod n, with R0 the parsed opening
bool s2c_verify_commit(const uint8_t r32[32], const uint8_t data32[32], const uint8_t opening33[33]);
void s2c_host_commit(const uint8_t rho32[32], uint8_t out[32]);   // H_"s2c/ecdsa/data"(rho)

// ---------------------------------------------------------------- ECDSA adaptor signatures (include/secp256k1_ecdsa_adaptor.h)
// 162 bytes: R (33) || R' (33) || s' (32) || e (32) || s_dleq (32), with R = kY, R' = kG and a DLEQ proof for (G, R', Y, R)
bool dleq_verify(const U256 &s, const U256 &e, const Pt &p1, const Pt &gen2, const Pt &p2);
void dleq_prove(const U256 &sk, const U256 &nonce, const Pt &gen2, U256 *s, U256 *e);     // p1 = sk*G, p2 = sk*gen2; nonce != 0
bool adaptor_verify(const uint8_t a162[162], const Pt &X, const uint8_t msg32[32], const Pt &Y);
// what an encryptor who chooses everything herself can build: R = k*Y, R' = k*G, proof with dleq_nonce, and any 32 bytes as s'
void adaptor_craft(const U256 &k, const Pt &Y, const uint8_t sp32[32], const U256 &dleq_nonce, uint8_t out162[162]);

// ---------------------------------------------------------------- half aggregation
// triples: pk32, msg32, sig64
struct Triple { uint8_t pk[32], msg[32], sig[64]; };
bool halfagg_aggregate(const std::vector<Triple> &t, Bytes *out);  // false if an s >= n
bool halfagg_verify(const std::vector<std::array<uint8_t, 32>> &pks, const std::vector<std::array<uint8_t, 32>> &msgs, const uint8_t *agg, size_t agglen);

// ---------------------------------------------------------------- ECDH / ElligatorSwift
Pt xswiftec(const U256 &u, const U256 &t);            // BIP-324 XSwiftEC with lift to parity of t -> point
Pt ellswift_decode(const uint8_t ell64[64]);
void ecdh_default_hash(const Pt &shared, uint8_t out[32]);
void bip324_hash(const uint8_t ell_a[64], const uint8_t ell_b[64], const uint8_t x32[32], uint8_t out[32]);
void prefix_hash(const uint8_t prefix64[64], const uint8_t ell_a[64], const uint8_t ell_b[64], const uint8_t x32[32], uint8_t out[32]);

// ---------------------------------------------------------------- util
std::string hex(const uint8_t *p, size_t n);
inline std::string hex(const Bytes &b) { return hex(b.data(), b.size()); }
Bytes unhex(const std::string &s);

int selftest(std::string *why);   // 0 ok

}  // namespace ref
