// Independent reference model. See ref.h.
#include "ref.h"
#include <cassert>

namespace ref {

typedef unsigned __int128 u128;

// ================================================================= SHA-256
static const uint32_t K256[64] = {
    0x428a2f98, 0x71374491, 0xb5c0fbcf, 0xe9b5dba5, 0x3956c25b, 0x59f111f1, 0x923f82a4, 0xab1c5ed5,
    0xd807aa98, 0x12835b01, 0x243185be, 0x550c7dc3, 0x72be5d74, 0x80deb1fe, 0x9bdc06a7, 0xc19bf174,
    0xe49b69c1, 0xefbe4786, 0x0fc19dc6, 0x240ca1cc, 0x2de92c6f, 0x4a7484aa, 0x5cb0a9dc, 0x76f988da,
    0x983e5152, 0xa831c66d, 0xb00327c8, 0xbf597fc7, 0xc6e00bf3, 0xd5a79147, 0x06ca6351, 0x14292967,
    0x27b70a85, 0x2e1b2138, 0x4d2c6dfc, 0x53380d13, 0x650a7354, 0x766a0abb, 0x81c2c92e, 0x92722c85,
    0xa2bfe8a1, 0xa81a664b, 0xc24b8b70, 0xc76c51a3, 0xd192e819, 0xd6990624, 0xf40e3585, 0x106aa070,
    0x19a4c116, 0x1e376c08, 0x2748774c, 0x34b0bcb5, 0x391c0cb3, 0x4ed8aa4a, 0x5b9cca4f, 0x682e6ff3,
    0x748f82ee, 0x78a5636f, 0x84c87814, 0x8cc70208, 0x90befffa, 0xa4506ceb, 0xbef9a3f7, 0xc67178f2};

static inline uint32_t rotr(uint32_t x, int n) { return (x >> n) | (x << (32 - n)); }

void sha256_compress(uint32_t *st, const unsigned char *blocks, size_t nblocks) {
    for (size_t blk = 0; blk < nblocks; blk++) {
        const unsigned char *p = blocks + 64 * blk;
        uint32_t w[64];
        for (int i = 0; i < 16; i++)
            w[i] = ((uint32_t)p[4 * i] << 24) | ((uint32_t)p[4 * i + 1] << 16) | ((uint32_t)p[4 * i + 2] << 8) | p[4 * i + 3];
        for (int i = 16; i < 64; i++) {
            uint32_t s0 = rotr(w[i - 15], 7) ^ rotr(w[i - 15], 18) ^ (w[i - 15] >> 3);
            uint32_t s1 = rotr(w[i - 2], 17) ^ rotr(w[i - 2], 19) ^ (w[i - 2] >> 10);
            w[i] = w[i - 16] + s0 + w[i - 7] + s1;
        }
        uint32_t a = st[0], b = st[1], c = st[2], d = st[3], e = st[4], f = st[5], g = st[6], h = st[7];
        for (int i = 0; i < 64; i++) {
            uint32_t S1 = rotr(e, 6) ^ rotr(e, 11) ^ rotr(e, 25);
            uint32_t ch = (e & f) ^ (~e & g);
            uint32_t t1 = h + S1 + ch + K256[i] + w[i];
            uint32_t S0 = rotr(a, 2) ^ rotr(a, 13) ^ rotr(a, 22);
            uint32_t mj = (a & b) ^ (a & c) ^ (b & c);
            uint32_t t2 = S0 + mj;
            h = g; g = f; f = e; e = d + t1; d = c; c = b; b = a; a = t1 + t2;
        }
        st[0] += a; st[1] += b; st[2] += c; st[3] += d; st[4] += e; st[5] += f; st[6] += g; st[7] += h;
    }
}

Sha256::Sha256() {
    static const uint32_t iv[8] = {0x6a09e667, 0xbb67ae85, 0x3c6ef372, 0xa54ff53a, 0x510e527f, 0x9b05688c, 0x1f83d9ab, 0x5be0cd19};
    memcpy(h, iv, sizeof(h));
    len = 0;
}
void Sha256::write(const uint8_t *p, size_t n) {
    while (n) {
        size_t off = len % 64, take = 64 - off;
        if (take > n) take = n;
        memcpy(buf + off, p, take);
        len += take; p += take; n -= take;
        if (len % 64 == 0) sha256_compress(h, buf, 1);
    }
}
void Sha256::finish(uint8_t out[32]) {
    uint64_t bits = len * 8;
    uint8_t pad = 0x80;
    write(&pad, 1);
    uint8_t z = 0;
    while (len % 64 != 56) write(&z, 1);
    uint8_t lb[8];
    for (int i = 0; i < 8; i++) lb[i] = (uint8_t)(bits >> (56 - 8 * i));
    write(lb, 8);
    for (int i = 0; i < 8; i++) {
        out[4 * i] = h[i] >> 24; out[4 * i + 1] = h[i] >> 16; out[4 * i + 2] = h[i] >> 8; out[4 * i + 3] = h[i];
    }
}
void sha256(const uint8_t *p, size_t n, uint8_t out[32]) { Sha256 s; s.write(p, n); s.finish(out); }
Sha256 tagged(const char *tag) {
    uint8_t th[32];
    sha256((const uint8_t *)tag, strlen(tag), th);
    Sha256 s; s.write(th, 32); s.write(th, 32);
    return s;
}
void hmac_sha256(const uint8_t *key, size_t klen, const uint8_t *msg, size_t mlen, uint8_t out[32]) {
    uint8_t k[64]; memset(k, 0, 64);
    if (klen > 64) sha256(key, klen, k); else memcpy(k, key, klen);
    uint8_t ipad[64], opad[64];
    for (int i = 0; i < 64; i++) { ipad[i] = k[i] ^ 0x36; opad[i] = k[i] ^ 0x5c; }
    uint8_t inner[32];
    Sha256 a; a.write(ipad, 64); a.write(msg, mlen); a.finish(inner);
    Sha256 b; b.write(opad, 64); b.write(inner, 32); b.finish(out);
}

// ================================================================= U256
U256 U256::from_be(const uint8_t *b) {
    U256 r;
    for (int i = 0; i < 4; i++) {
        uint64_t v = 0;
        for (int j = 0; j < 8; j++) v = (v << 8) | b[8 * i + j];
        r.w[3 - i] = v;
    }
    return r;
}
void U256::to_be(uint8_t *b) const {
    for (int i = 0; i < 4; i++)
        for (int j = 0; j < 8; j++) b[8 * i + j] = (uint8_t)(w[3 - i] >> (56 - 8 * j));
}
int cmp(const U256 &a, const U256 &b) {
    for (int i = 3; i >= 0; i--) {
        if (a.w[i] < b.w[i]) return -1;
        if (a.w[i] > b.w[i]) return 1;
    }
    return 0;
}
static uint64_t add_carry(U256 &r, const U256 &a, const U256 &b) {
    u128 c = 0;
    for (int i = 0; i < 4; i++) { c += (u128)a.w[i] + b.w[i]; r.w[i] = (uint64_t)c; c >>= 64; }
    return (uint64_t)c;
}
static uint64_t sub_borrow(U256 &r, const U256 &a, const U256 &b) {
    uint64_t br = 0;
    for (int i = 0; i < 4; i++) {
        u128 d = (u128)a.w[i] - b.w[i] - br;
        r.w[i] = (uint64_t)d;
        br = (uint64_t)(d >> 64) & 1;
    }
    return br;
}
// 4x4 limb product into 8 limbs
static void mul_wide(uint64_t out[8], const U256 &a, const U256 &b) {
    for (int i = 0; i < 8; i++) out[i] = 0;
    for (int i = 0; i < 4; i++) {
        u128 carry = 0;
        for (int j = 0; j < 4; j++) {
            u128 cur = (u128)a.w[i] * b.w[j] + out[i + j] + carry;
            out[i + j] = (uint64_t)cur;
            carry = cur >> 64;
        }
        out[i + 4] = (uint64_t)carry;
    }
}

static U256 hexu(const char *s) {
    Bytes b = unhex(s);
    assert(b.size() == 32);
    return U256::from_be(b.data());
}

static Modulus make_mod(const char *mhex) {
    Modulus M;
    M.m = hexu(mhex);
    U256 zero;
    sub_borrow(M.c, zero, M.m);  // 2^256 - m
    return M;
}
const Modulus FP = make_mod("fffffffffffffffffffffffffffffffffffffffffffffffffffffffefffffc2f");
const Modulus FN = make_mod("fffffffffffffffffffffffffffffffebaaedce6af48a03bbfd25e8cd0364141");
const U256 HALF_N = hexu("7fffffffffffffffffffffffffffffff5d576e7357a4501ddfe92f46681b20a0");

U256 Modulus::reduce(const U256 &a) const {
    U256 r = a;
    while (cmp(r, m) >= 0) sub_borrow(r, r, m);
    return r;
}
U256 Modulus::add(const U256 &a_in, const U256 &b_in) const {
    U256 a = reduce(a_in), b = reduce(b_in);
    U256 r;
    uint64_t c = add_carry(r, a, b);
    if (c) { U256 t; add_carry(t, r, this->c); r = t; }  // r + 2^256 == r + c (mod m); no second carry since a,b < m
    return reduce(r);
}
U256 Modulus::neg(const U256 &a) const {
    if (a.is_zero()) return a;
    U256 r; sub_borrow(r, m, a); return r;
}
U256 Modulus::sub(const U256 &a, const U256 &b) const { return add(a, neg(reduce(b))); }
U256 Modulus::mul(const U256 &a, const U256 &b) const {
    uint64_t t[8];
    mul_wide(t, a, b);
    U256 lo, hi;
    for (int i = 0; i < 4; i++) { lo.w[i] = t[i]; hi.w[i] = t[i + 4]; }
    while (!hi.is_zero()) {
        uint64_t u[8];
        mul_wide(u, hi, c);
        U256 ulo, uhi;
        for (int i = 0; i < 4; i++) { ulo.w[i] = u[i]; uhi.w[i] = u[i + 4]; }
        uint64_t carry = add_carry(lo, lo, ulo);
        hi = uhi;
        if (carry) { U256 one(1); add_carry(hi, hi, one); }
    }
    return reduce(lo);
}
U256 Modulus::pow(const U256 &a, const U256 &e) const {
    U256 r(1);
    for (int i = 255; i >= 0; i--) {
        r = sqr(r);
        if (e.bit(i)) r = mul(r, a);
    }
    return r;
}
U256 Modulus::inv(const U256 &a) const {
    U256 e; U256 two(2);
    sub_borrow(e, m, two);
    return pow(a, e);
}

U256 scalar_from_be_reduce(const uint8_t *b, bool *overflow) {
    U256 v = U256::from_be(b);
    bool of = cmp(v, FN.m) >= 0;
    if (overflow) *overflow = of;
    return FN.reduce(v);
}

// ================================================================= group
const Pt G(hexu("79be667ef9dcbbac55a06295ce870b07029bfcdb2dce28d959f2815b16f81798"),
           hexu("483ada7726a3c4655da4fbfc0e1108a8fd17b448a68554199c47d08ffb10d4b8"));

bool operator==(const Pt &a, const Pt &b) {
    if (a.inf || b.inf) return a.inf && b.inf;
    return a.x == b.x && a.y == b.y;
}
bool on_curve(const Pt &p) {
    if (p.inf) return true;
    U256 lhs = FP.sqr(p.y);
    U256 rhs = FP.add(FP.mul(FP.sqr(p.x), p.x), U256(7));
    return lhs == rhs;
}
Pt neg(const Pt &a) {
    if (a.inf) return a;
    return Pt(a.x, FP.neg(a.y));
}

// Jacobian internals
struct Jac { U256 X, Y, Z; bool inf; };
static Jac to_jac(const Pt &p) { Jac j; j.inf = p.inf; j.X = p.x; j.Y = p.y; j.Z = U256(1); return j; }
static Pt to_aff(const Jac &j) {
    if (j.inf || j.Z.is_zero()) return Pt();
    U256 zi = FP.inv(j.Z), zi2 = FP.sqr(zi), zi3 = FP.mul(zi2, zi);
    return Pt(FP.mul(j.X, zi2), FP.mul(j.Y, zi3));
}
static Jac jdbl(const Jac &p) {
    if (p.inf || p.Y.is_zero()) { Jac r; r.inf = true; return r; }
    // a = 0: standard formulas
    U256 A = FP.sqr(p.X), B = FP.sqr(p.Y), C = FP.sqr(B);
    U256 xb = FP.add(p.X, B);
    U256 D = FP.sub(FP.sub(FP.sqr(xb), A), C); D = FP.add(D, D);
    U256 E = FP.add(FP.add(A, A), A);
    U256 F = FP.sqr(E);
    Jac r; r.inf = false;
    r.X = FP.sub(F, FP.add(D, D));
    U256 C8 = FP.add(C, C); C8 = FP.add(C8, C8); C8 = FP.add(C8, C8);
    r.Y = FP.sub(FP.mul(E, FP.sub(D, r.X)), C8);
    U256 yz = FP.mul(p.Y, p.Z);
    r.Z = FP.add(yz, yz);
    return r;
}
static Jac jadd(const Jac &p, const Jac &q) {
    if (p.inf) return q;
    if (q.inf) return p;
    U256 Z1Z1 = FP.sqr(p.Z), Z2Z2 = FP.sqr(q.Z);
    U256 U1 = FP.mul(p.X, Z2Z2), U2 = FP.mul(q.X, Z1Z1);
    U256 S1 = FP.mul(FP.mul(p.Y, q.Z), Z2Z2), S2 = FP.mul(FP.mul(q.Y, p.Z), Z1Z1);
    if (U1 == U2) {
        if (S1 == S2) return jdbl(p);
        Jac r; r.inf = true; return r;
    }
    U256 H = FP.sub(U2, U1), R = FP.sub(S2, S1);
    U256 H2 = FP.sqr(H), H3 = FP.mul(H2, H), U1H2 = FP.mul(U1, H2);
    Jac r; r.inf = false;
    r.X = FP.sub(FP.sub(FP.sqr(R), H3), FP.add(U1H2, U1H2));
    r.Y = FP.sub(FP.mul(R, FP.sub(U1H2, r.X)), FP.mul(S1, H3));
    r.Z = FP.mul(FP.mul(H, p.Z), q.Z);
    return r;
}
Pt add(const Pt &a, const Pt &b) { return to_aff(jadd(to_jac(a), to_jac(b))); }
Pt mul(const U256 &k, const Pt &p) {
    Jac acc; acc.inf = true;
    if (p.inf) return Pt();
    Jac base = to_jac(p);
    for (int i = 255; i >= 0; i--) {
        acc = jdbl(acc);
        if (k.bit(i)) acc = jadd(acc, base);
    }
    return to_aff(acc);
}
Pt mulG(const U256 &k) { return mul(k, G); }

bool fe_sqrt(const U256 &a, U256 *r) {
    // p = 3 mod 4: r = a^((p+1)/4)
    static const U256 e = hexu("3fffffffffffffffffffffffffffffffffffffffffffffffffffffffbfffff0c");
    U256 c = FP.pow(a, e);
    if (FP.sqr(c) != FP.reduce(a)) return false;
    *r = c;
    return true;
}
bool lift_x(const U256 &x, Pt *out) {
    if (cmp(x, FP.m) >= 0) return false;
    U256 rhs = FP.add(FP.mul(FP.sqr(x), x), U256(7));
    U256 y;
    if (!fe_sqrt(rhs, &y)) return false;
    if (y.is_odd()) y = FP.neg(y);
    *out = Pt(x, y);
    return true;
}
bool parse_pubkey(const uint8_t *in, size_t len, Pt *out) {
    if (len == 33 && (in[0] == 2 || in[0] == 3)) {
        U256 x = U256::from_be(in + 1);
        Pt p;
        if (!lift_x(x, &p)) return false;
        if (in[0] == 3) p.y = FP.neg(p.y);
        *out = p;
        return true;
    }
    if (len == 65 && (in[0] == 4 || in[0] == 6 || in[0] == 7)) {
        U256 x = U256::from_be(in + 1), y = U256::from_be(in + 33);
        if (cmp(x, FP.m) >= 0 || cmp(y, FP.m) >= 0) return false;
        Pt p(x, y);
        if (!on_curve(p)) return false;
        if (in[0] == 6 && y.is_odd()) return false;
        if (in[0] == 7 && !y.is_odd()) return false;
        *out = p;
        return true;
    }
    return false;
}
void ser33(const Pt &p, uint8_t out[33]) { out[0] = p.y.is_odd() ? 3 : 2; p.x.to_be(out + 1); }
void ser65(const Pt &p, uint8_t out[65]) { out[0] = 4; p.x.to_be(out + 1); p.y.to_be(out + 33); }
void ser33_ext(const Pt &p, uint8_t out[33]) { if (p.inf) memset(out, 0, 33); else ser33(p, out); }
bool parse33_ext(const uint8_t in[33], Pt *out) {
    bool allz = true;
    for (int i = 0; i < 33; i++) if (in[i]) allz = false;
    if (allz) { *out = Pt(); return true; }
    return parse_pubkey(in, 33, out);
}
void xbytes(const Pt &p, uint8_t out[32]) { p.x.to_be(out); }

// ================================================================= BIP-340
U256 bip340_challenge(const uint8_t r32[32], const uint8_t pk32[32], const uint8_t *msg, size_t msglen) {
    Sha256 h = tagged("BIP0340/challenge");
    h.write(r32, 32); h.write(pk32, 32); h.write(msg, msglen);
    uint8_t e[32]; h.finish(e);
    return scalar_from_be_reduce(e);
}
bool bip340_verify(const uint8_t pk32[32], const uint8_t *msg, size_t msglen, const uint8_t sig64[64]) {
    Pt P;
    if (!lift_x(U256::from_be(pk32), &P)) return false;
    U256 r = U256::from_be(sig64), s = U256::from_be(sig64 + 32);
    if (cmp(r, FP.m) >= 0) return false;
    if (cmp(s, FN.m) >= 0) return false;
    U256 e = bip340_challenge(sig64, pk32, msg, msglen);
    Pt R = add(mulG(s), neg(mul(e, P)));
    if (R.inf) return false;
    if (R.y.is_odd()) return false;
    return R.x == r;
}

// ================================================================= ECDSA
bool ecdsa_verify(const Pt &pub, const uint8_t msg32[32], const uint8_t r32[32], const uint8_t s32[32]) {
    U256 r = U256::from_be(r32), s = U256::from_be(s32);
    if (r.is_zero() || s.is_zero()) return false;
    if (cmp(r, FN.m) >= 0 || cmp(s, FN.m) >= 0) return false;
    if (cmp(s, HALF_N) > 0) return false;
    if (pub.inf) return false;
    U256 m = scalar_from_be_reduce(msg32);
    U256 si = FN.inv(s);
    U256 u1 = FN.mul(m, si), u2 = FN.mul(r, si);
    Pt R = add(mulG(u1), mul(u2, pub));
    if (R.inf) return false;
    return FN.reduce(R.x) == r;
}
bool ecdsa_recover(const uint8_t msg32[32], const uint8_t r32[32], const uint8_t s32[32], int recid, Pt *out) {
    U256 r = U256::from_be(r32), s = U256::from_be(s32);
    if (r.is_zero() || s.is_zero()) return false;
    if (cmp(r, FN.m) >= 0 || cmp(s, FN.m) >= 0) return false;
    U256 x = r;
    if (recid & 2) {
        // x = r + n must be < p
        U256 t;
        uint64_t c = add_carry(t, r, FN.m);
        if (c || cmp(t, FP.m) >= 0) return false;
        x = t;
    }
    Pt R;
    if (!lift_x(x, &R)) return false;
    if (recid & 1) R.y = FP.neg(R.y);
    U256 m = scalar_from_be_reduce(msg32);
    U256 ri = FN.inv(r);
    // Q = r^-1 (s R - m G)
    Pt Q = add(mul(FN.mul(s, ri), R), neg(mulG(FN.mul(m, ri))));
    if (Q.inf) return false;
    *out = Q;
    return true;
}
void rfc6979_nonce(const uint8_t key32[32], const uint8_t msg32[32], const uint8_t *data32, const uint8_t *algo16, unsigned counter, uint8_t out[32]) {
    uint8_t seed[112]; size_t sl = 0;
    memcpy(seed, key32, 32); sl += 32;
    U256 m = scalar_from_be_reduce(msg32);
    m.to_be(seed + sl); sl += 32;
    if (data32) { memcpy(seed + sl, data32, 32); sl += 32; }
    if (algo16) { memcpy(seed + sl, algo16, 16); sl += 16; }
    uint8_t V[32], K[32];
    memset(V, 1, 32); memset(K, 0, 32);
    uint8_t buf[32 + 1 + 112];
    // K = HMAC_K(V || 0x00 || seed)
    memcpy(buf, V, 32); buf[32] = 0; memcpy(buf + 33, seed, sl);
    hmac_sha256(K, 32, buf, 33 + sl, K);
    hmac_sha256(K, 32, V, 32, V);
    memcpy(buf, V, 32); buf[32] = 1; memcpy(buf + 33, seed, sl);
    hmac_sha256(K, 32, buf, 33 + sl, K);
    hmac_sha256(K, 32, V, 32, V);
    bool retry = false;
    for (unsigned i = 0; i <= counter; i++) {
        if (retry) {
            memcpy(buf, V, 32); buf[32] = 0;
            hmac_sha256(K, 32, buf, 33, K);
            hmac_sha256(K, 32, V, 32, V);
        }
        hmac_sha256(K, 32, V, 32, V);
        memcpy(out, V, 32);
        retry = true;
    }
}
bool ecdsa_sign_nonce(const U256 &d, const uint8_t msg32[32], const uint8_t k32[32], uint8_t r32[32], uint8_t s32[32], int *recid) {
    U256 m = scalar_from_be_reduce(msg32);
    U256 k = U256::from_be(k32);
    if (k.is_zero() || cmp(k, FN.m) >= 0) return false;
    Pt R = mulG(k);
    U256 r = FN.reduce(R.x);
    if (r.is_zero()) return false;
    int rid = (R.y.is_odd() ? 1 : 0) | (cmp(R.x, FN.m) >= 0 ? 2 : 0);
    U256 s = FN.mul(FN.inv(k), FN.add(m, FN.mul(r, d)));
    if (s.is_zero()) return false;
    if (cmp(s, HALF_N) > 0) { s = FN.neg(s); rid ^= 1; }
    r.to_be(r32); s.to_be(s32);
    if (recid) *recid = rid;
    return true;
}
bool ecdsa_sign_rfc6979(const uint8_t key32[32], const uint8_t msg32[32], const uint8_t *data32, uint8_t r32[32], uint8_t s32[32], int *recid) {
    U256 d = U256::from_be(key32);
    if (d.is_zero() || cmp(d, FN.m) >= 0) return false;
    for (unsigned cnt = 0;; cnt++) {
        uint8_t k32[32];
        rfc6979_nonce(key32, msg32, data32, nullptr, cnt, k32);
        if (ecdsa_sign_nonce(d, msg32, k32, r32, s32, recid)) return true;
    }
}

// ================================================================= BIP-327
KeyAggCtx keyagg(const std::vector<std::array<uint8_t, 33>> &pks) {
    KeyAggCtx c;
    c.ok = false; c.has_second = false; c.gacc = U256(1); c.tacc = U256(0);
    memset(c.L, 0, 32); memset(c.second33, 0, 33);
    if (pks.empty()) return c;
    std::vector<Pt> pts;
    for (auto &pk : pks) {
        Pt p;
        if (!parse_pubkey(pk.data(), 33, &p)) return c;
        pts.push_back(p);
    }
    Sha256 h = tagged("KeyAgg list");
    for (auto &pk : pks) h.write(pk.data(), 33);
    h.finish(c.L);
    for (size_t i = 1; i < pks.size(); i++)
        if (pks[i] != pks[0]) { c.has_second = true; memcpy(c.second33, pks[i].data(), 33); break; }
    Pt Q;
    for (size_t i = 0; i < pks.size(); i++) {
        U256 a = keyagg_coeff(c, pks[i].data());
        Q = add(Q, mul(a, pts[i]));
    }
    if (Q.inf) return c;
    c.Q = Q; c.ok = true;
    return c;
}
U256 keyagg_coeff(const KeyAggCtx &c, const uint8_t pk33[33]) {
    if (c.has_second && memcmp(pk33, c.second33, 33) == 0) return U256(1);
    Sha256 h = tagged("KeyAgg coefficient");
    h.write(c.L, 32); h.write(pk33, 33);
    uint8_t o[32]; h.finish(o);
    return scalar_from_be_reduce(o);
}
bool apply_tweak(KeyAggCtx &c, const uint8_t tweak32[32], bool xonly) {
    U256 t = U256::from_be(tweak32);
    if (cmp(t, FN.m) >= 0) return false;
    U256 g(1);
    if (xonly && c.Q.y.is_odd()) g = FN.neg(U256(1));
    Pt Q2 = add(mul(g, c.Q), mulG(t));
    if (Q2.inf) return false;
    c.Q = Q2;
    c.gacc = FN.mul(g, c.gacc);
    c.tacc = FN.add(t, FN.mul(g, c.tacc));
    return true;
}
static bool parse_pubnonce(const uint8_t in[66], Pt out[2]) {
    for (int i = 0; i < 2; i++)
        if (!parse_pubkey(in + 33 * i, 33, &out[i])) return false;
    return true;
}
bool nonce_agg(const std::vector<std::array<uint8_t, 66>> &pubnonces, uint8_t out66[66]) {
    Pt R[2];
    for (auto &pn : pubnonces) {
        Pt p[2];
        if (!parse_pubnonce(pn.data(), p)) return false;
        R[0] = add(R[0], p[0]); R[1] = add(R[1], p[1]);
    }
    ser33_ext(R[0], out66); ser33_ext(R[1], out66 + 33);
    return true;
}
bool nonce_gen(const uint8_t rand32[32], const uint8_t *sk32, const uint8_t pk33[33], const uint8_t *aggpk32, const uint8_t *msg, size_t msglen,
               const uint8_t *extra, size_t extralen, uint8_t k1[32], uint8_t k2[32], uint8_t pubnonce66[66]) {
    uint8_t rnd[32];
    if (sk32) {
        Sha256 a = tagged("MuSig/aux");
        a.write(rand32, 32); a.finish(rnd);
        for (int i = 0; i < 32; i++) rnd[i] ^= sk32[i];
    } else memcpy(rnd, rand32, 32);
    Sha256 h = tagged("MuSig/nonce");
    h.write(rnd, 32);
    uint8_t l = 33; h.write(&l, 1); h.write(pk33, 33);
    l = aggpk32 ? 32 : 0; h.write(&l, 1); if (aggpk32) h.write(aggpk32, 32);
    if (msg) {
        uint8_t pre[9] = {1}; for (int i = 0; i < 8; i++) pre[1 + i] = (uint8_t)((uint64_t)msglen >> (56 - 8 * i));
        h.write(pre, 9); h.write(msg, msglen);
    } else { uint8_t z = 0; h.write(&z, 1); }
    size_t el = extra ? extralen : 0;
    uint8_t el4[4] = {(uint8_t)(el >> 24), (uint8_t)(el >> 16), (uint8_t)(el >> 8), (uint8_t)el};
    h.write(el4, 4); if (el) h.write(extra, el);
    uint8_t *ks[2] = {k1, k2};
    for (int i = 0; i < 2; i++) {
        Sha256 t = h; uint8_t ib = (uint8_t)i, d[32];
        t.write(&ib, 1); t.finish(d);
        U256 k = scalar_from_be_reduce(d);
        if (k == U256()) return false;
        k.to_be(ks[i]);
        ser33(mulG(k), pubnonce66 + 33 * i);
    }
    return true;
}
SessionVals session_values(const KeyAggCtx &c, const uint8_t aggnonce66[66], const uint8_t msg32[32], const Pt *adaptor) {
    SessionVals sv; sv.ok = false;
    Pt R1, R2;
    if (!parse33_ext(aggnonce66, &R1) || !parse33_ext(aggnonce66 + 33, &R2)) return sv;
    if (adaptor) R1 = add(R1, *adaptor);
    uint8_t b1[33], b2[33], q[32];
    ser33_ext(R1, b1); ser33_ext(R2, b2); xbytes(c.Q, q);
    Sha256 h = tagged("MuSig/noncecoef");
    h.write(b1, 33); h.write(b2, 33); h.write(q, 32); h.write(msg32, 32);
    uint8_t o[32]; h.finish(o);
    sv.b = scalar_from_be_reduce(o);
    Pt R = add(R1, mul(sv.b, R2));
    if (R.inf) R = G;
    sv.R = R;
    uint8_t rx[32]; xbytes(R, rx);
    sv.e = bip340_challenge(rx, q, msg32, 32);
    sv.ok = true;
    return sv;
}
bool partial_sig_verify(const KeyAggCtx &c, const SessionVals &sv, const uint8_t psig32[32], const uint8_t pubnonce66[66], const uint8_t pk33[33]) {
    U256 s = U256::from_be(psig32);
    if (cmp(s, FN.m) >= 0) return false;
    Pt Rs[2];
    if (!parse_pubnonce(pubnonce66, Rs)) return false;
    Pt Re = add(Rs[0], mul(sv.b, Rs[1]));
    if (sv.R.y.is_odd()) Re = neg(Re);
    Pt P;
    if (!parse_pubkey(pk33, 33, &P)) return false;
    U256 a = keyagg_coeff(c, pk33);
    U256 g = c.Q.y.is_odd() ? FN.neg(U256(1)) : U256(1);
    U256 gp = FN.mul(g, c.gacc);
    U256 coef = FN.mul(FN.mul(sv.e, a), gp);
    Pt rhs = add(Re, mul(coef, P));
    return mulG(s) == rhs;
}
bool partial_sig_agg(const KeyAggCtx &c, const SessionVals &sv, const std::vector<B32> &psigs, uint8_t sig64[64]) {
    U256 s(0);
    for (auto &ps : psigs) {
        U256 v = U256::from_be(ps.data());
        if (cmp(v, FN.m) >= 0) return false;
        s = FN.add(s, v);
    }
    U256 g = c.Q.y.is_odd() ? FN.neg(U256(1)) : U256(1);
    s = FN.add(s, FN.mul(FN.mul(sv.e, g), c.tacc));
    xbytes(sv.R, sig64);
    s.to_be(sig64 + 32);
    return true;
}

// ================================================================= half aggregation
bool halfagg_aggregate(const std::vector<Triple> &t, Bytes *out) {
    Sha256 h = tagged("HalfAgg/randomizer");
    U256 s(0);
    out->clear();
    for (size_t i = 0; i < t.size(); i++) {
        h.write(t[i].sig, 32); h.write(t[i].pk, 32); h.write(t[i].msg, 32);
        Sha256 hc = h;
        uint8_t zo[32]; hc.finish(zo);
        U256 z = (i == 0) ? U256(1) : scalar_from_be_reduce(zo);
        U256 si = scalar_from_be_reduce(t[i].sig + 32);
        s = FN.add(s, FN.mul(z, si));
    }
    for (auto &x : t) out->insert(out->end(), x.sig, x.sig + 32);
    uint8_t sb[32]; s.to_be(sb);
    out->insert(out->end(), sb, sb + 32);
    return true;
}
bool halfagg_verify(const std::vector<std::array<uint8_t, 32>> &pks, const std::vector<std::array<uint8_t, 32>> &msgs, const uint8_t *agg, size_t agglen) {
    size_t n = pks.size();
    if (msgs.size() != n) return false;
    if (agglen != 32 * (n + 1)) return false;
    Sha256 h = tagged("HalfAgg/randomizer");
    Pt rhs;
    for (size_t i = 0; i < n; i++) {
        Pt P, R;
        if (!lift_x(U256::from_be(pks[i].data()), &P)) return false;
        h.write(agg + 32 * i, 32); h.write(pks[i].data(), 32); h.write(msgs[i].data(), 32);
        Sha256 hc = h;
        uint8_t zo[32]; hc.finish(zo);
        U256 z = (i == 0) ? U256(1) : scalar_from_be_reduce(zo);
        if (!lift_x(U256::from_be(agg + 32 * i), &R)) return false;
        U256 e = bip340_challenge(agg + 32 * i, pks[i].data(), msgs[i].data(), 32);
        Pt T = add(R, mul(e, P));
        rhs = add(rhs, mul(z, T));
    }
    U256 s = U256::from_be(agg + 32 * n);
    if (cmp(s, FN.m) >= 0) return false;
    return mulG(s) == rhs;
}

// ================================================================= ECDH / ElligatorSwift
static bool is_x_on_curve(const U256 &x) {
    U256 rhs = FP.add(FP.mul(FP.sqr(x), x), U256(7));
    U256 y;
    return fe_sqrt(rhs, &y);
}
Pt xswiftec(const U256 &u_in, const U256 &t_in) {
    static U256 c0;  // sqrt(-3)
    static bool init = false;
    if (!init) {
        U256 m3 = FP.neg(U256(3));
        bool ok = fe_sqrt(m3, &c0);
        assert(ok); (void)ok;
        init = true;
    }
    U256 u = FP.reduce(u_in), t = FP.reduce(t_in);
    bool t_odd = t.is_odd();
    if (u.is_zero()) u = U256(1);
    if (t.is_zero()) t = U256(1);
    U256 u3p7 = FP.add(FP.mul(FP.sqr(u), u), U256(7));
    if (FP.add(u3p7, FP.sqr(t)).is_zero()) t = FP.add(t, t);
    U256 X = FP.mul(FP.sub(u3p7, FP.sqr(t)), FP.inv(FP.add(t, t)));
    U256 Y = FP.mul(FP.add(X, t), FP.inv(FP.mul(c0, u)));
    U256 XoverY = FP.mul(X, FP.inv(Y));
    U256 half = FP.inv(U256(2));
    U256 Y2 = FP.sqr(Y);
    U256 fourY2 = FP.add(FP.add(Y2, Y2), FP.add(Y2, Y2));
    U256 cand[3] = {
        FP.add(u, fourY2),
        FP.mul(FP.sub(FP.neg(XoverY), u), half),
        FP.mul(FP.sub(XoverY, u), half)};
    for (int i = 0; i < 3; i++) {
        if (is_x_on_curve(cand[i])) {
            Pt p;
            bool ok = lift_x(cand[i], &p);
            assert(ok); (void)ok;
            if (t_odd) p.y = FP.neg(p.y);
            return p;
        }
    }
    return Pt();  // unreachable by the theorem
}
Pt ellswift_decode(const uint8_t ell64[64]) {
    return xswiftec(U256::from_be(ell64), U256::from_be(ell64 + 32));
}
static U256 dleq_challenge(const Pt &gen2, const Pt &r1, const Pt &r2, const Pt &p1, const Pt &p2) {
    Sha256 h = tagged("DLEQ");
    const Pt *order[5] = {&p1, &gen2, &p2, &r1, &r2};
    for (const Pt *q : order) { uint8_t b[33]; ser33(*q, b); h.write(b, 33); }
    uint8_t d[32]; h.finish(d);
    return scalar_from_be_reduce(d);
}
bool dleq_verify(const U256 &s, const U256 &e, const Pt &p1, const Pt &gen2, const Pt &p2) {
    U256 en = FN.neg(e);
    Pt r1 = add(mulG(s), mul(en, p1));
    Pt r2 = add(mul(s, gen2), mul(en, p2));
    if (r1.inf || r2.inf) return false;
    return dleq_challenge(gen2, r1, r2, p1, p2) == e;
}
void dleq_prove(const U256 &sk, const U256 &nonce, const Pt &gen2, U256 *s, U256 *e) {
    Pt p1 = mulG(sk), p2 = mul(sk, gen2), r1 = mulG(nonce), r2 = mul(nonce, gen2);
    *e = dleq_challenge(gen2, r1, r2, p1, p2);
    *s = FN.add(nonce, FN.mul(*e, sk));
}
bool adaptor_verify(const uint8_t a[162], const Pt &X, const uint8_t msg32[32], const Pt &Y) {
    Pt R, Rp;
    if (!parse_pubkey(a, 33, &R)) return false;
    U256 sigr = scalar_from_be_reduce(a + 1);
    if (sigr.is_zero()) return false;
    if (!parse_pubkey(a + 33, 33, &Rp)) return false;
    bool ov = false;
    U256 sp = scalar_from_be_reduce(a + 66, &ov);
    if (ov || sp.is_zero()) return false;
    U256 e = scalar_from_be_reduce(a + 98);
    U256 sd = scalar_from_be_reduce(a + 130, &ov);
    if (ov) return false;
    if (Y.inf || X.inf) return false;
    if (!dleq_verify(sd, e, Rp, Y, R)) return false;
    U256 m = scalar_from_be_reduce(msg32), sn = FN.inv(sp);
    Pt d = add(mulG(FN.mul(sn, m)), mul(FN.mul(sn, sigr), X));
    if (d.inf) return false;
    return d == Rp;
}
void adaptor_craft(const U256 &k, const Pt &Y, const uint8_t sp32[32], const U256 &dleq_nonce, uint8_t out[162]) {
    Pt R = mul(k, Y), Rp = mulG(k);
    ser33(R, out); ser33(Rp, out + 33);
    memcpy(out + 66, sp32, 32);
    U256 s, e; dleq_prove(k, dleq_nonce, Y, &s, &e);
    e.to_be(out + 98); s.to_be(out + 130);
}
bool s2c_verify_commit(const uint8_t r32[32], const uint8_t data32[32], const uint8_t opening33[33]) {
    Pt R0;
    if (!parse_pubkey(opening33, 33, &R0)) return false;
    uint8_t b[33], t32[32]; ser33(R0, b);
    Sha256 h = tagged("s2c/ecdsa/point");
    h.write(b, 33); h.write(data32, 32); h.finish(t32);
    bool ov = false;
    U256 t = scalar_from_be_reduce(t32, &ov);
    if (ov) return false;
    Pt R = add(R0, mulG(t));
    if (R.inf) return false;
    uint8_t x[32]; xbytes(R, x);
    return scalar_from_be_reduce(x) == scalar_from_be_reduce(r32);
}
void s2c_host_commit(const uint8_t rho32[32], uint8_t out[32]) {
    Sha256 h = tagged("s2c/ecdsa/data");
    h.write(rho32, 32); h.finish(out);
}
void ecdh_default_hash(const Pt &sh, uint8_t out[32]) {
    uint8_t b[33]; ser33(sh, b);
    sha256(b, 33, out);
}
void bip324_hash(const uint8_t ell_a[64], const uint8_t ell_b[64], const uint8_t x32[32], uint8_t out[32]) {
    Sha256 h = tagged("bip324_ellswift_xonly_ecdh");
    h.write(ell_a, 64); h.write(ell_b, 64); h.write(x32, 32);
    h.finish(out);
}
void prefix_hash(const uint8_t prefix64[64], const uint8_t ell_a[64], const uint8_t ell_b[64], const uint8_t x32[32], uint8_t out[32]) {
    Sha256 h;
    h.write(prefix64, 64); h.write(ell_a, 64); h.write(ell_b, 64); h.write(x32, 32);
    h.finish(out);
}

// ================================================================= util
std::string hex(const uint8_t *p, size_t n) {
    static const char *d = "0123456789abcdef";
    std::string s; s.reserve(2 * n);
    for (size_t i = 0; i < n; i++) { s.push_back(d[p[i] >> 4]); s.push_back(d[p[i] & 15]); }
    return s;
}
Bytes unhex(const std::string &s) {
    Bytes b;
    auto v = [](char c) -> int { if (c >= '0' && c <= '9') return c - '0'; if (c >= 'a' && c <= 'f') return c - 'a' + 10; if (c >= 'A' && c <= 'F') return c - 'A' + 10; return -1; };
    for (size_t i = 0; i + 1 < s.size(); i += 2) {
        int a = v(s[i]), c = v(s[i + 1]);
        if (a < 0 || c < 0) break;
        b.push_back((uint8_t)(a * 16 + c));
    }
    return b;
}

}  // namespace ref
