#include "core.h"

namespace sim {

uint64_t splitmix64(uint64_t &s) {
    uint64_t z = (s += 0x9e3779b97f4a7c15ull);
    z = (z ^ (z >> 30)) * 0xbf58476d1ce4e5b9ull;
    z = (z ^ (z >> 27)) * 0x94d049bb133111ebull;
    return z ^ (z >> 31);
}
uint64_t mix3(uint64_t a, uint64_t b, uint64_t c) {
    uint64_t s = a;
    uint64_t x = splitmix64(s);
    s = x ^ (b * 0x9e3779b97f4a7c15ull);
    x = splitmix64(s);
    s = x ^ (c * 0xc2b2ae3d27d4eb4full);
    return splitmix64(s);
}
Rng::Rng(uint64_t seed) {
    uint64_t t = seed;
    for (int i = 0; i < 4; i++) s[i] = splitmix64(t);
}
static inline uint64_t rotl(uint64_t x, int k) { return (x << k) | (x >> (64 - k)); }
uint64_t Rng::next() {
    uint64_t r = rotl(s[1] * 5, 7) * 9, t = s[1] << 17;
    s[2] ^= s[0]; s[3] ^= s[1]; s[1] ^= s[2]; s[0] ^= s[3];
    s[2] ^= t; s[3] = rotl(s[3], 45);
    return r;
}
void Rng::fill(uint8_t *p, size_t n) {
    size_t i = 0;
    while (i < n) {
        uint64_t v = next();
        for (int j = 0; j < 8 && i < n; j++, i++) p[i] = (uint8_t)(v >> (8 * j));
    }
}

std::string hex(const uint8_t *p, size_t n) {
    static const char *d = "0123456789abcdef";
    std::string s; s.reserve(2 * n);
    for (size_t i = 0; i < n; i++) { s.push_back(d[p[i] >> 4]); s.push_back(d[p[i] & 15]); }
    return s;
}
Bytes unhex(const std::string &s) {
    Bytes b;
    auto v = [](char c) -> int { if (c >= '0' && c <= '9') return c - '0'; if (c >= 'a' && c <= 'f') return c - 'a' + 10; if (c >= 'A' && c <= 'F') return c - 'A' + 10; return -1; };
    for (size_t i = 0; i + 1 < s.size(); i += 2) {
        int a = v(s[i]), c = v(s[i + 1]);
        if (a < 0 || c < 0) break;
        b.push_back((uint8_t)(a * 16 + c));
    }
    return b;
}
uint64_t fnv1a(const void *p, size_t n, uint64_t h) {
    const uint8_t *b = (const uint8_t *)p;
    for (size_t i = 0; i < n; i++) { h ^= b[i]; h *= 0x100000001b3ull; }
    return h;
}

json plan_to_json(const Plan &p) {
    json j;
    j["world"] = p.world;
    j["seed"] = p.seed;
    json c = json::object();
    for (auto &kv : p.cfg) c[kv.first] = kv.second;
    j["cfg"] = c;
    json ops = json::array();
    for (auto &o : p.ops) {
        json jo;
        jo["k"] = o.k;
        jo["a"] = o.a;
        if (!o.x.empty()) jo["x"] = hex(o.x);
        ops.push_back(jo);
    }
    j["ops"] = ops;
    return j;
}
Plan plan_from_json(const json &j) {
    Plan p;
    p.world = j.value("world", "");
    p.seed = j.value("seed", (uint64_t)0);
    if (j.contains("cfg")) for (auto it = j["cfg"].begin(); it != j["cfg"].end(); ++it) p.cfg[it.key()] = it.value().get<int64_t>();
    if (j.contains("ops")) for (auto &jo : j["ops"]) {
        Op o;
        o.k = jo.value("k", "");
        if (jo.contains("a")) o.a = jo["a"].get<std::vector<int64_t>>();
        if (jo.contains("x")) o.x = unhex(jo["x"].get<std::string>());
        p.ops.push_back(o);
    }
    return p;
}
uint64_t plan_hash(const Plan &p) {
    // hash of the semantic content, not the seed (two seeds giving the same plan are the same case)
    uint64_t h = fnv1a(p.world.data(), p.world.size());
    for (auto &kv : p.cfg) { h = fnv1a(kv.first.data(), kv.first.size(), h); h = fnv1a(&kv.second, 8, h); }
    for (auto &o : p.ops) {
        h = fnv1a(o.k.data(), o.k.size(), h);
        for (auto v : o.a) h = fnv1a(&v, 8, h);
        h = fnv1a(o.x.data(), o.x.size(), h);
        h = fnv1a("|", 1, h);
    }
    return h;
}

void Result::ev(const std::string &line) {
    hist_hash = fnv1a(line.data(), line.size(), hist_hash);
    hist_hash = fnv1a("\n", 1, hist_hash);
    steps++;
    if (keep_log) log.push_back(line);
}
void Result::sched(uint64_t v) { sched_hash = fnv1a(&v, 8, sched_hash); }
void Result::violate(const std::string &prop, const std::string &vc, const std::string &st, const std::string &dt) {
    if (!ok) return;
    ok = false; property = prop; vclass = vc; site = st; detail = dt;
    ev("VIOLATION " + prop + " " + vc + " " + st);
}
json result_to_json(const Result &r) {
    json j;
    j["ok"] = r.ok;
    if (!r.ok) { j["property"] = r.property; j["vclass"] = r.vclass; j["site"] = r.site; j["detail"] = r.detail; }
    char b[32];
    snprintf(b, sizeof b, "%016llx", (unsigned long long)r.hist_hash); j["hh"] = b;
    snprintf(b, sizeof b, "%016llx", (unsigned long long)r.sched_hash); j["sh"] = b;
    j["faults"] = r.faults;
    j["probes"] = r.probes;
    if (!r.cover.empty()) j["cover"] = r.cover;
    j["cmp"] = r.comparisons;
    j["cmpf"] = r.comparisons_after_fault;
    j["simt"] = r.sim_time_ms;
    j["steps"] = r.steps;
    if (r.keep_log) j["log"] = r.log;
    return j;
}

static std::vector<World> &registry() { static std::vector<World> r; return r; }
void register_world(const World &w) { registry().push_back(w); }
const World *find_world(const std::string &name) {
    for (auto &w : registry()) if (name == w.name) return &w;
    return nullptr;
}
std::vector<const World *> all_worlds() {
    std::vector<const World *> v;
    for (auto &w : registry()) v.push_back(&w);
    return v;
}

}  // namespace sim
