#include "fiber.h"
#include "seams.h"
#include <sys/mman.h>
#include <link.h>
#include <algorithm>
#include <cstdlib>
#include <cstdio>

namespace sim {

Sched g_sched;
int g_cur_api_id = 0;
static int64_t g_guard_count = 0;
static const uint32_t *g_guard_start = nullptr, *g_guard_stop = nullptr;

static const size_t STACK_SIZE = 2u << 20;
static std::vector<uint8_t *> g_stack_pool;

static uint8_t *get_stack() {
    if (!g_stack_pool.empty()) { uint8_t *s = g_stack_pool.back(); g_stack_pool.pop_back(); return s; }
    uint8_t *m = (uint8_t *)mmap(nullptr, STACK_SIZE + 4096, PROT_READ | PROT_WRITE, MAP_PRIVATE | MAP_ANONYMOUS, -1, 0);
    if (m == MAP_FAILED) { perror("mmap"); abort(); }
    mprotect(m, 4096, PROT_NONE);  // guard page below the stack
    return m + 4096;
}

void Sched::reset() {
    for (auto &t : tasks) if (t.stack) g_stack_pool.push_back(t.stack);
    tasks.clear();
    current = -1; active = false; detect = false;
    preempts.clear(); dry_edges.clear(); regions.clear();
    race = RaceReport();
    switch_hash = 0xcbf29ce484222325ull; switches = 0; stores_seen = edges_seen = 0;
    guard_hits.clear(); overlap.clear();
    on_switch = nullptr;
}
void Sched::add_task(std::function<void()> fn) {
    FiberTask t;
    t.id = (int)tasks.size();
    t.fn = fn;
    tasks.push_back(std::move(t));
}
void Sched::add_region(const void *p, size_t n, const std::string &name, int owner) {
    regions.push_back(Region{(const uint8_t *)p, (const uint8_t *)p + n, name, owner});
}

struct TaskExtra { int depth; int api_id; bool in_call; };
static std::vector<TaskExtra> g_extra;

static void trampoline() {
    Sched &s = g_sched;
    int me = s.current;
    s.tasks[me].fn();
    s.tasks[me].done = true;
    swapcontext(&s.tasks[me].uc, &s.main_uc);
}

void Sched::run(int first) {
    active = true;
    g_extra.assign(tasks.size(), TaskExtra{0, 0, false});
    for (auto &t : tasks) {
        t.stack = get_stack(); t.stack_size = STACK_SIZE;
        getcontext(&t.uc);
        t.uc.uc_stack.ss_sp = t.stack; t.uc.uc_stack.ss_size = t.stack_size; t.uc.uc_link = nullptr;
        makecontext(&t.uc, (void (*)())trampoline, 0);
        t.started = false; t.done = false; t.call_no = -1; t.edge = 0;
    }
    int next = tasks.empty() ? -1 : first % (int)tasks.size();
    int want = -1;  // requested by the pre-emption that just fired
    while (true) {
        // choose: requested task if runnable, else `next` if runnable, else lowest-index runnable
        int pick = -1;
        if (want >= 0 && !tasks[want].done) pick = want;
        else if (next >= 0 && !tasks[next].done) pick = next;
        else for (size_t i = 0; i < tasks.size(); i++) if (!tasks[i].done) { pick = (int)i; break; }
        if (pick < 0) break;
        want = -1;
        // statistics: which API pairs overlap (some other task is suspended inside a call)
        for (size_t i = 0; i < tasks.size(); i++)
            if ((int)i != pick && tasks[i].started && !tasks[i].done && g_extra[i].in_call && g_extra[pick].in_call) {
                int a = g_extra[i].api_id, b = g_extra[pick].api_id;
                overlap[std::make_pair(std::min(a, b), std::max(a, b))]++;
            }
        current = pick;
        g_mon.cur_task = pick; g_mon.api_depth = g_extra[pick].depth; g_cur_api_id = g_extra[pick].api_id;
        tasks[pick].started = true;
        uint64_t sv = (uint64_t)pick; switch_hash = fnv1a(&sv, 8, switch_hash); switches++;
        swapcontext(&main_uc, &tasks[pick].uc);
        // back on the scheduler stack
        g_extra[pick].depth = g_mon.api_depth; g_extra[pick].api_id = g_cur_api_id;
        g_mon.api_depth = 0; g_mon.cur_task = -1;
        int prev = current; current = -1;
        if (on_switch) on_switch();
        if (tasks[prev].done) { next = -1; continue; }
        // pre-empted: the target was stored in tasks[prev].targets front (consumed in yield)
        want = pending_to_;
        next = prev;   // fall back to continuing the same task
        if (want >= 0) {
            // "to" counts runnable tasks other than prev
            std::vector<int> others;
            for (size_t i = 0; i < tasks.size(); i++) if ((int)i != prev && !tasks[i].done) others.push_back((int)i);
            want = others.empty() ? -1 : others[(size_t)want % others.size()];
        }
    }
    active = false; current = -1;
    for (auto &t : tasks) { if (t.stack) g_stack_pool.push_back(t.stack); t.stack = nullptr; }
}

int Sched::pending_to_ = -1;

void fiber_call_begin() {
    Sched &s = g_sched;
    if (!s.active || s.current < 0) return;
    FiberTask &t = s.tasks[s.current];
    g_extra[s.current].in_call = true;
    t.call_no++; t.edge = 0;
    t.targets.clear();
    int64_t E = 0;
    if ((size_t)t.id < s.dry_edges.size() && (size_t)t.call_no < s.dry_edges[t.id].size()) E = s.dry_edges[t.id][t.call_no];
    for (auto &p : s.preempts)
        if (p.task == t.id && p.call == t.call_no && !p.used) {
            int64_t e = E > 0 ? 1 + (int64_t)((__int128)p.ppm * (E - 1) / 1000000) : 1;
            t.targets.push_back(std::make_pair(e, p.to));
        }
    std::sort(t.targets.begin(), t.targets.end());
}
void fiber_call_end() {
    Sched &s = g_sched;
    if (!s.active || s.current < 0) return;
    FiberTask &t = s.tasks[s.current];
    g_extra[s.current].in_call = false;
    if (t.edges_per_call.size() <= (size_t)t.call_no) t.edges_per_call.resize(t.call_no + 1, 0);
    t.edges_per_call[t.call_no] = t.edge;
}
void fiber_yield_point(int64_t guard_id) {
    Sched &s = g_sched;
    if (!s.active || s.current < 0) return;
    FiberTask &t = s.tasks[s.current];
    if (t.call_no < 0 || !g_extra[s.current].in_call) return;
    t.edge++; s.edges_seen++;
    if (t.targets.empty() || t.targets.front().first > t.edge) return;
    int to = t.targets.front().second;
    while (!t.targets.empty() && t.targets.front().first <= t.edge) t.targets.erase(t.targets.begin());
    s.guard_hits[guard_id]++;
    Sched::pending_to_ = to;
    swapcontext(&t.uc, &s.main_uc);
}

static void classify_store(const void *addr) {
    Sched &s = g_sched;
    if (s.current < 0) {
        // outside the concurrent phase: the library must still never write its own image
        const uint8_t *a0 = (const uint8_t *)addr;
        for (auto &r : s.lib_regions)
            if (a0 >= r.lo && a0 < r.hi) { if (!s.global_hits++) s.global_where = r.name + "+" + std::to_string((long)(a0 - r.lo)); }
        return;
    }
    if (!s.detect) return;
    s.stores_seen++;
    const uint8_t *a = (const uint8_t *)addr;
    FiberTask &t = s.tasks[s.current];
    if (a >= t.stack && a < t.stack + t.stack_size) return;
    for (auto &r : s.regions) {
        if (a >= r.lo && a < r.hi) {
            if (r.owner == t.id) return;
            if (!s.race.hit) {
                s.race.hit = true; s.race.task = t.id; s.race.call = t.call_no; s.race.edge = t.edge;
                s.race.where = r.name + "+" + std::to_string((long)(a - r.lo)) + (r.owner >= 0 ? " (private to task " + std::to_string(r.owner) + ")" : " (shared)");
            }
            return;
        }
    }
    if (g_mon.owns(addr, t.id)) return;
    if (!s.race.hit) {
        s.race.hit = true; s.race.task = t.id; s.race.call = t.call_no; s.race.edge = t.edge;
        // another task's stack?
        for (auto &o : s.tasks)
            if (o.id != t.id && o.stack && a >= o.stack && a < o.stack + o.stack_size) { s.race.where = "stack of task " + std::to_string(o.id); return; }
        s.race.where = "memory not owned by the running task (unclassified)";
    }
}

int64_t sancov_guard_count() { return g_guard_count; }

struct PhdrCtx { std::vector<Region> *out; };
static int phdr_cb(struct dl_phdr_info *info, size_t, void *data) {
    PhdrCtx *c = (PhdrCtx *)data;
    if (!info->dlpi_name || !strstr(info->dlpi_name, "libsecp_")) return 0;
    std::vector<std::pair<const uint8_t *, const uint8_t *>> rw, ro;
    for (int i = 0; i < info->dlpi_phnum; i++) {
        const ElfW(Phdr) &ph = info->dlpi_phdr[i];
        const uint8_t *lo = (const uint8_t *)(info->dlpi_addr + ph.p_vaddr), *hi = lo + ph.p_memsz;
        if (ph.p_type == PT_LOAD && (ph.p_flags & PF_W)) rw.push_back(std::make_pair(lo, hi));
        if (ph.p_type == PT_GNU_RELRO) ro.push_back(std::make_pair(lo, hi));
    }
    if (g_guard_start) ro.push_back(std::make_pair((const uint8_t *)g_guard_start, (const uint8_t *)g_guard_stop));
    // subtract ro ranges from rw ranges
    int idx = 0;
    for (auto seg : rw) {
        std::vector<std::pair<const uint8_t *, const uint8_t *>> parts{seg};
        for (auto &x : ro) {
            std::vector<std::pair<const uint8_t *, const uint8_t *>> np;
            for (auto &p : parts) {
                if (x.second <= p.first || x.first >= p.second) { np.push_back(p); continue; }
                if (x.first > p.first) np.push_back(std::make_pair(p.first, x.first));
                if (x.second < p.second) np.push_back(std::make_pair(x.second, p.second));
            }
            parts = np;
        }
        for (auto &p : parts)
            if (p.second > p.first) c->out->push_back(Region{p.first, p.second, "libdata" + std::to_string(idx++), -1});
    }
    return 0;
}
void collect_library_writable(std::vector<Region> &out) {
    PhdrCtx c{&out};
    dl_iterate_phdr(phdr_cb, &c);
}

}  // namespace sim

// ------------------------------------------------------------------ sanitizer coverage callbacks
extern "C" {
void __sanitizer_cov_trace_pc_guard_init(uint32_t *start, uint32_t *stop) {
    if (start == stop || *start) return;
    uint32_t n = (uint32_t)sim::g_guard_count;
    for (uint32_t *x = start; x < stop; x++) *x = ++n;
    sim::g_guard_count = n;
    sim::g_guard_start = start; sim::g_guard_stop = stop;
}
void __sanitizer_cov_trace_pc_guard(uint32_t *guard) { sim::fiber_yield_point((int64_t)*guard); }
void __sanitizer_cov_store1(uint8_t *a) { sim::classify_store(a); }
void __sanitizer_cov_store2(uint16_t *a) { sim::classify_store(a); }
void __sanitizer_cov_store4(uint32_t *a) { sim::classify_store(a); }
void __sanitizer_cov_store8(uint64_t *a) { sim::classify_store(a); }
void __sanitizer_cov_store16(__uint128_t *a) { sim::classify_store(a); }
}
