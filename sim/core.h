// Core of the deterministic simulator: PRNG, Plan, History, Result, world registry.
#pragma once
#include <cstdint>
#include <cstring>
#include <string>
#include <vector>
#include <map>
#include <set>
#include <functional>
#include <nlohmann/json.hpp>

namespace sim {

using json = nlohmann::json;
typedef std::vector<uint8_t> Bytes;

// ---------------------------------------------------------------- PRNG (only generate() may use it)
uint64_t splitmix64(uint64_t &s);
uint64_t mix3(uint64_t a, uint64_t b, uint64_t c);
struct Rng {
    uint64_t s[4];
    explicit Rng(uint64_t seed);
    uint64_t next();
    uint64_t below(uint64_t n) { return n ? next() % n : 0; }          // [0,n)
    int64_t range(int64_t lo, int64_t hi) { return lo + (int64_t)below((uint64_t)(hi - lo + 1)); }  // [lo,hi]
    bool chance(unsigned num, unsigned den) { return below(den) < num; }
    void fill(uint8_t *p, size_t n);
    Bytes bytes(size_t n) { Bytes b(n); fill(b.data(), n); return b; }
};

// ---------------------------------------------------------------- Plan
struct Op {
    std::string k;             // kind
    std::vector<int64_t> a;    // integer arguments
    Bytes x;                   // optional byte argument
    int64_t arg(size_t i, int64_t dflt = 0) const { return i < a.size() ? a[i] : dflt; }
};
struct Plan {
    std::string world;
    uint64_t seed = 0;
    std::map<std::string, int64_t> cfg;
    std::vector<Op> ops;
    int64_t c(const std::string &k, int64_t dflt = 0) const { auto it = cfg.find(k); return it == cfg.end() ? dflt : it->second; }
};
json plan_to_json(const Plan &p);
Plan plan_from_json(const json &j);
uint64_t plan_hash(const Plan &p);

std::string hex(const uint8_t *p, size_t n);
inline std::string hex(const Bytes &b) { return hex(b.data(), b.size()); }
Bytes unhex(const std::string &s);
uint64_t fnv1a(const void *p, size_t n, uint64_t h = 0xcbf29ce484222325ull);

// ---------------------------------------------------------------- History / Result
struct Result {
    bool ok = true;
    std::string property;      // property violated
    std::string vclass;        // violation class (stable identifier)
    std::string site;          // stable call site / message kind for known-finding matching
    std::string detail;        // human readable
    uint64_t hist_hash = 0xcbf29ce484222325ull;
    uint64_t sched_hash = 0xcbf29ce484222325ull;
    std::vector<std::string> log;  // history lines (kept when tracing, always hashed)
    bool keep_log = false;
    std::map<std::string, int64_t> faults;  // fired, by kind
    std::map<std::string, int64_t> probes;  // rare-branch probes
    std::set<std::string> cover;            // coverage ids (unioned across runs by the driver)
    int64_t expected_illegal = 0, expected_error = 0;  // callbacks provoked on purpose by injected caller misuse / OOM
    int64_t comparisons = 0;        // oracle comparisons made
    int64_t comparisons_after_fault = 0;
    int64_t sim_time_ms = 0;
    int64_t steps = 0;
    int64_t faults_total() const { int64_t t = 0; for (auto &kv : faults) t += kv.second; return t; }

    void ev(const std::string &line);            // append to history
    void sched(uint64_t v);                      // mix into schedule hash
    void fault(const std::string &kind) { faults[kind]++; }
    void probe(const std::string &name, int64_t n = 1) { probes[name] += n; }
    void cmp() { comparisons++; if (faults_total() > 0) comparisons_after_fault++; }
    // record first violation only
    void violate(const std::string &prop, const std::string &vclass, const std::string &site, const std::string &detail);
};
json result_to_json(const Result &r);

struct ExecOpts {
    bool trace = false;   // keep history lines
};

struct World {
    const char *name;
    const char *property;      // default property id the world serves
    Plan (*generate)(uint64_t seed, int tier);
    void (*execute)(const Plan &, const ExecOpts &, Result &);
};
void register_world(const World &w);
const World *find_world(const std::string &name);
std::vector<const World *> all_worlds();

#define SIM_REGISTER_WORLD(w) \
    namespace { struct Reg_##w { Reg_##w() { sim::register_world(w); } } reg_##w; }

}  // namespace sim
