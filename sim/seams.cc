#include "seams.h"
#include "ref/ref.h"
#include <cstdlib>
#include <cstdio>

extern "C" {
void *__real_malloc(size_t);
void __real_free(void *);
}

namespace sim {

Monitor g_mon;
static int64_t g_canary_broken = 0;

void Monitor::reset_run() {
    illegal_count = error_count = 0;
    for (auto &x : illegal_by_task) x = 0;
    last_illegal.clear(); last_error.clear();
    api_depth = 0; cur_task = -1;
    mallocs_in_api = frees_in_api = malloc_total = 0;
    fail_nth = -1; fail_seen = 0; fails_injected = 0;
    for (auto &b : live) __real_free(b.p);   // blocks leaked by a previous (violating) run
    live.clear();
    seq = 0;
    abort_target = nullptr;
    bad_ret = 0; bad_ret_where.clear();
    compress_contract_violations = 0;
    g_canary_broken = 0;
}
bool Monitor::owns(const void *addr, int task) const {
    const uint8_t *a = (const uint8_t *)addr;
    for (auto &b : live)
        if (b.owner == task && a >= (const uint8_t *)b.p && a < (const uint8_t *)b.p + b.size) return true;
    return false;
}

int check01(int v, const char *where) {
    if (v != 0 && v != 1) {
        if (!g_mon.bad_ret) g_mon.bad_ret_where = where;
        g_mon.bad_ret++;
    }
    return v;
}

void counting_illegal_cb(const char *msg, void *) {
    g_mon.illegal_count++;
    { int k = g_mon.cur_task + 1; if (k >= 0 && k < 40) g_mon.illegal_by_task[k]++; }
    g_mon.last_illegal = msg ? msg : "";
}
void counting_error_cb(const char *msg, void *) {
    g_mon.error_count++;
    g_mon.last_error = msg ? msg : "";
    if (g_mon.abort_target) {
        jmp_buf *t = g_mon.abort_target;
        g_mon.abort_target = nullptr;
        g_mon.api_depth = 0;
        longjmp(*t, 1);
    }
    // No handler armed: the header says anything may happen after the callback returns. The
    // caller of the simulation sees error_count != expected and reports it.
}

Buf::Buf(size_t n_) : n(n_) {
    base = (uint8_t *)malloc(n + 2 * PAD);
    memset(base, 0xA5, PAD); memset(base + PAD, 0xCD, n); memset(base + PAD + n, 0x5A, PAD);
}
Buf::Buf(const uint8_t *src, size_t n_) : n(n_) {
    base = (uint8_t *)malloc(n + 2 * PAD);
    memset(base, 0xA5, PAD); if (n) memcpy(base + PAD, src, n); memset(base + PAD + n, 0x5A, PAD);
}
bool Buf::intact() const {
    for (int i = 0; i < PAD; i++) if (base[i] != 0xA5 || base[PAD + n + i] != 0x5A) return false;
    return true;
}
Buf::~Buf() {
    if (!intact()) g_canary_broken++;
    free(base);
}

void monitors_epilogue(Result &r, int64_t expected_illegal, int64_t expected_error) {
    if (g_canary_broken)
        r.violate("C07", "canary", "buffer", "a canary next to a buffer handed to the library was overwritten");
    if (g_mon.compress_contract_violations)
        r.violate("C20", "compression_contract", "fn_sha256_compression", "the replaced compression function was called " + std::to_string(g_mon.compress_contract_violations) + " time(s) with zero blocks or a NULL pointer; the header promises \"one or more contiguous 64-byte message blocks\"");
    if (g_mon.bad_ret)
        r.violate("C07", "bad_return", g_mon.bad_ret_where, "API returned a value other than 0/1");
    if (g_mon.error_count != expected_error)
        r.violate("C07", "error_callback", g_mon.last_error, "error callback fired " + std::to_string(g_mon.error_count) + " times, expected " + std::to_string(expected_error));
    if (g_mon.illegal_count != expected_illegal)
        r.violate("C07", "illegal_callback", g_mon.last_illegal, "illegal callback fired " + std::to_string(g_mon.illegal_count) + " times, expected " + std::to_string(expected_illegal) + " (last: " + g_mon.last_illegal + ")");
    if (!g_mon.live.empty())
        r.violate("C07", "leak", "size=" + std::to_string(g_mon.live[0].size), std::to_string(g_mon.live.size()) + " block(s) allocated by the library were never freed");
}

bool documented_not_static(const char *api) {
    static std::map<std::string, int> m;
    static bool loaded = false;
    if (!loaded) {
        loaded = true;
        const char *p = getenv("SIM_NOTSTATIC");
        FILE *f = p ? fopen(p, "r") : NULL;
        if (!f) { fprintf(stderr, "SIM_NOTSTATIC list missing; the driver writes it from /repo/include\n"); exit(3); }
        char name[200]; int flag;
        while (fscanf(f, "%199s %d", name, &flag) == 2) m[name] = flag;
        fclose(f);
    }
    auto it = m.find(api);
    return it != m.end() && it->second == 1;
}

extern "C" void sim_model_compression(uint32_t *state, const unsigned char *blocks, size_t n) {
    if (n == 0 || blocks == NULL || state == NULL) { g_mon.compress_contract_violations++; return; }
    ref::sha256_compress(state, blocks, n);
}

}  // namespace sim

// ------------------------------------------------------------------ link-time seams
extern "C" {

void secp256k1_default_illegal_callback_fn(const char *str, void *data) { sim::counting_illegal_cb(str, data); }
void secp256k1_default_error_callback_fn(const char *str, void *data) { sim::counting_error_cb(str, data); }

void *__wrap_malloc(size_t size) {
    using sim::g_mon;
    if (g_mon.api_depth <= 0) return __real_malloc(size);
    g_mon.mallocs_in_api++; g_mon.malloc_total++;
    if (g_mon.fail_nth >= 0) {
        if (g_mon.fail_seen++ == g_mon.fail_nth) { g_mon.fails_injected++; return nullptr; }
    }
    void *p = __real_malloc(size);
    if (p) {
        int depth = g_mon.api_depth; g_mon.api_depth = 0;   // vector growth must not recurse into accounting
        g_mon.live.push_back(sim::Block{p, size, g_mon.cur_task, g_mon.seq++});
        g_mon.api_depth = depth;
    }
    return p;
}
void __wrap_free(void *p) {
    using sim::g_mon;
    if (p && !g_mon.live.empty()) {
        for (size_t i = g_mon.live.size(); i-- > 0;)
            if (g_mon.live[i].p == p) {
                g_mon.live.erase(g_mon.live.begin() + i);
                if (g_mon.api_depth > 0) g_mon.frees_in_api++;
                break;
            }
    }
    __real_free(p);
}
}
