// Discrete-event simulated network + timers + crash schedule. Every decision is read from the Plan:
// faults and delays are attached to the logical identity of a message (kind, session, attempt, from, to),
// never to a global call index, so any sub-plan is executable and shrinking works.
#pragma once
#include "core.h"
#include <queue>
#include <functional>

namespace sim {

struct Msg {
    int kind = 0, sid = 0, attempt = 0, from = 0, to = 0, copy = 0;
    Bytes bytes;        // as delivered
    Bytes sent;         // as handed to the network by the sender (provenance)
    bool misdelivered = false;   // bytes come from a different message of the same kind
    bool intact() const { return !misdelivered && bytes == sent; }
};

enum NetFault { NF_DROP = 1, NF_DUP, NF_FLIP, NF_SET, NF_ZERO, NF_FF, NF_TRUNC, NF_EXT, NF_SPLICE, NF_MISDELIVER, NF_WORLD1, NF_WORLD2, NF_WORLD3, NF_MAX };

struct Net {
    const Plan *plan = nullptr;
    Result *r = nullptr;
    int64_t now = 0;
    uint64_t seq = 0;
    int64_t delivered = 0;
    int64_t step_cap = 20000;
    const char *const *kind_names = nullptr;
    struct Ev { int64_t at; uint64_t seq; int type; Msg m; int node; int tag; };
    struct Cmp { bool operator()(const Ev &a, const Ev &b) const { return a.at != b.at ? a.at > b.at : a.seq > b.seq; } };
    std::priority_queue<Ev, std::vector<Ev>, Cmp> q;
    std::map<int, std::vector<Bytes>> seen;      // per kind, bytes as sent, in send order
    std::function<void(const Msg &)> on_deliver;
    std::function<void(int node, int tag)> on_timer;
    std::function<void(int node)> on_crash;
    std::function<bool(int fault, Msg &m, int64_t a1, int64_t a2)> world_fault;  // returns true if applied
    std::vector<bool> crash_done;
    int64_t last_fault_time = 0;
    std::set<int> fault_sids;          // sessions in which some fault fired (or a long delay was applied)

    void init(const Plan *p, Result *res, const char *const *names) {
        plan = p; r = res; kind_names = names; now = 0; seq = 0; delivered = 0;
        while (!q.empty()) q.pop();
        seen.clear(); fault_sids.clear(); last_fault_time = 0;
        crash_done.assign(p->ops.size(), false);
    }
    std::string name(int kind) const { return kind_names ? kind_names[kind] : std::to_string(kind); }
    static bool match(const Op &o, const Msg &m) {
        return o.arg(0) == m.kind && o.arg(1) == m.sid && o.arg(2) == m.attempt && o.arg(3) == m.from && o.arg(4) == m.to;
    }
    void send(Msg m) {
        m.sent = m.bytes; m.copy = 0; m.misdelivered = false;
        int64_t delay = 1;
        for (const Op &o : plan->ops) if (o.k == "nd" && match(o, m)) { delay = std::max<int64_t>(0, o.arg(5)); if (delay > 50) fault_sids.insert(m.sid); }
        bool drop = false, dup = false;
        for (const Op &o : plan->ops) {
            if (o.k != "nf" || !match(o, m)) continue;
            int f = (int)o.arg(5); int64_t a1 = o.arg(6), a2 = o.arg(7);
            size_t n = m.bytes.size();
            bool fired = true;
            switch (f) {
                case NF_DROP: drop = true; break;
                case NF_DUP: dup = true; break;
                case NF_FLIP: if (n) { size_t bit = (size_t)(((a1 % (int64_t)(8 * n)) + 8 * n) % (8 * n)); m.bytes[bit / 8] ^= (uint8_t)(1u << (bit % 8)); } else fired = false; break;
                case NF_SET: if (n) { size_t off = (size_t)(((a1 % (int64_t)n) + n) % n); uint8_t old = m.bytes[off]; m.bytes[off] = (uint8_t)a2; if (old == m.bytes[off]) fired = false; } else fired = false; break;
                case NF_ZERO: std::fill(m.bytes.begin(), m.bytes.end(), 0); break;
                case NF_FF: std::fill(m.bytes.begin(), m.bytes.end(), 0xff); break;
                case NF_TRUNC: if (n) { size_t k = (size_t)(((a1 % (int64_t)n) + n) % n); m.bytes.resize(k); } else fired = false; break;
                case NF_EXT: { size_t k = 1 + (size_t)(((a1 % 40) + 40) % 40); for (size_t i = 0; i < k; i++) m.bytes.push_back((uint8_t)(a2 + i)); } break;
                case NF_SPLICE: case NF_MISDELIVER: {
                    auto &lst = seen[m.kind];
                    // candidates: earlier messages of this kind with different bytes
                    std::vector<const Bytes *> cand;
                    for (auto &b : lst) if (b != m.sent) cand.push_back(&b);
                    if (cand.empty()) { fired = false; break; }
                    const Bytes &other = *cand[(size_t)(((a1 % (int64_t)cand.size()) + cand.size()) % cand.size())];
                    if (f == NF_MISDELIVER) { m.bytes = other; m.misdelivered = true; }
                    else { size_t cut = n ? (size_t)(((a2 % (int64_t)n) + n) % n) : 0; Bytes nb(m.bytes.begin(), m.bytes.begin() + cut); if (other.size() > cut) nb.insert(nb.end(), other.begin() + cut, other.end()); m.bytes = nb; if (m.bytes == m.sent) fired = false; }
                } break;
                default: fired = world_fault ? world_fault(f, m, a1, a2) : false; break;
            }
            if (fired) { r->fault(std::string("net.") + fault_name(f)); last_fault_time = now; fault_sids.insert(m.sid); }
        }
        seen[m.kind].push_back(m.sent);
        if (drop) { r->ev("drop " + desc(m)); return; }
        q.push(Ev{now + delay, seq++, 0, m, m.to, 0});
        if (dup) { Msg d = m; d.copy = 1; q.push(Ev{now + 2 * delay + 1, seq++, 0, d, d.to, 0}); }
    }
    void timer(int node, int64_t delay, int tag) { q.push(Ev{now + delay, seq++, 1, Msg(), node, tag}); }
    static const char *fault_name(int f) {
        static const char *n[] = {"?", "drop", "dup", "flip", "set", "zero", "ff", "trunc", "ext", "splice", "misdeliver", "world1", "world2", "world3"};
        return (f > 0 && f < NF_MAX) ? n[f] : "?";
    }
    std::string desc(const Msg &m) const {
        return name(m.kind) + " s" + std::to_string(m.sid) + " a" + std::to_string(m.attempt) + " " + std::to_string(m.from) + "->" + std::to_string(m.to) + (m.copy ? " dup" : "") + (m.intact() ? "" : " ALTERED") + " " + hex(m.bytes).substr(0, 24);
    }
    // returns false when nothing is left (or the step cap is hit: *capped = true)
    bool step(bool *capped) {
        if (q.empty()) return false;
        if (delivered >= step_cap) { if (capped) *capped = true; return false; }
        Ev e = q.top(); q.pop();
        now = e.at;
        // crashes scheduled "after k delivered events"
        for (size_t i = 0; i < plan->ops.size(); i++) {
            const Op &o = plan->ops[i];
            if (o.k == "crash" && !crash_done[i] && o.arg(1) <= delivered) {
                crash_done[i] = true;
                r->fault("crash"); last_fault_time = now;
                r->ev("crash node " + std::to_string(o.arg(0)));
                if (on_crash) on_crash((int)o.arg(0));
            }
        }
        delivered++;
        r->sched(((uint64_t)e.type << 56) ^ ((uint64_t)e.m.kind << 48) ^ ((uint64_t)e.m.from << 40) ^ ((uint64_t)e.m.to << 32) ^ ((uint64_t)e.m.attempt << 16) ^ (uint64_t)e.m.copy ^ ((uint64_t)e.node << 8) ^ (uint64_t)e.tag);
        if (e.type == 0) { r->ev("deliver " + desc(e.m)); if (on_deliver) on_deliver(e.m); }
        else { if (on_timer) on_timer(e.node, e.tag); }
        r->sim_time_ms = now;
        return true;
    }
};

// Simulated durable store of one node: write is volatile until sync; a crash keeps only synced data.
struct Disk {
    std::map<std::string, Bytes> durable, pending;
    void write(const std::string &k, const Bytes &v) { pending[k] = v; }
    void sync() { for (auto &kv : pending) durable[kv.first] = kv.second; pending.clear(); }
    bool read(const std::string &k, Bytes *v) const {
        auto it = pending.find(k); if (it != pending.end()) { *v = it->second; return true; }
        it = durable.find(k); if (it != durable.end()) { *v = it->second; return true; }
        return false;
    }
    void crash() { pending.clear(); }
};

}  // namespace sim
