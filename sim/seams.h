// Seams between the simulator and the real library: default callbacks, allocator wrap,
// API scope markers, always-on monitors. No /repo source hook is involved: the callbacks come
// from the existing build option USE_EXTERNAL_DEFAULT_CALLBACKS, the allocator from -Wl,--wrap.
#pragma once
#include <csetjmp>
#include <cstdint>
#include <cstddef>
#include <string>
#include <vector>
#include "core.h"

extern "C" {
#include <secp256k1.h>
}

namespace sim {

struct Block { void *p; size_t size; int owner; uint64_t seq; };

struct Monitor {
    // callbacks
    int64_t illegal_count = 0;
    int64_t illegal_by_task[40] = {0};   // per running task (index cur_task + 1): callbacks are attributed to the caller thread that provoked them
    int64_t illegal_here() const { return illegal_by_task[(cur_task + 1) >= 0 && (cur_task + 1) < 40 ? cur_task + 1 : 0]; }
    int64_t error_count = 0;
    std::string last_illegal, last_error;
    // allocator
    int api_depth = 0;
    int cur_task = -1;
    int64_t mallocs_in_api = 0;       // count since last reset_call_counters()
    int64_t frees_in_api = 0;
    int64_t malloc_total = 0;
    int64_t fail_nth = -1;            // fail the n-th (0-based, counted from arm) malloc made inside the API
    int64_t fail_seen = 0;
    int64_t fails_injected = 0;
    std::vector<Block> live;          // blocks allocated inside API scope and not yet freed
    uint64_t seq = 0;
    // error-callback = simulated abort
    jmp_buf *abort_target = nullptr;
    // the documented contract of a replaced compression function: "one or more contiguous 64-byte blocks"
    int64_t compress_contract_violations = 0;
    // return values
    int64_t bad_ret = 0; std::string bad_ret_where;

    void reset_run();
    void arm_fail(int64_t nth) { fail_nth = nth; fail_seen = 0; }
    void disarm_fail() { fail_nth = -1; }
    bool owns(const void *addr, int task) const;   // addr inside a live block owned by task
};
extern Monitor g_mon;

void fiber_call_begin();
void fiber_call_end();
struct ApiScope {
    ApiScope() { if (++g_mon.api_depth == 1) fiber_call_begin(); }
    ~ApiScope() { if (g_mon.api_depth == 1) fiber_call_end(); g_mon.api_depth--; }
};
// every library call goes through L(): marks the API scope for the allocator seam
#define L(expr) ([&]() { sim::ApiScope _api_scope; return (expr); }())
// int-returning call whose contract is "returns 0 or 1"
int check01(int v, const char *where);
#define L01(expr) sim::check01(L(expr), #expr)

// Counting callbacks that can be installed per context too.
void counting_illegal_cb(const char *msg, void *data);
void counting_error_cb(const char *msg, void *data);

// Snapshot of the always-on monitors, used by worlds to assert "no callback fired here".
struct MonMark { int64_t ill, err; };
inline MonMark mon_mark() { return MonMark{g_mon.illegal_count, g_mon.error_count}; }
inline bool mon_quiet_since(const MonMark &m) { return g_mon.illegal_count == m.ill && g_mon.error_count == m.err; }

// Exact-size heap buffer with canaries on both sides (and, in the asan variant, ASan red zones):
// every input and output handed to the library lives in one of these.
struct Buf {
    uint8_t *base; size_t n;
    explicit Buf(size_t n_);
    Buf(const uint8_t *src, size_t n_);
    Buf(const Buf &) = delete; Buf &operator=(const Buf &) = delete;
    ~Buf();
    enum { PAD = 256 };
    uint8_t *p() { return base + PAD; }
    const uint8_t *p() const { return base + PAD; }
    bool intact() const;
    Bytes bytes() const { return Bytes(p(), p() + n); }
};

// exact-size heap copy without padding: an over-read by the library hits an ASan red zone (asan variants)
struct Exact {
    uint8_t *p; size_t n;
    explicit Exact(const Bytes &b) : n(b.size()) { p = (uint8_t *)malloc(n ? n : 1); if (n) memcpy(p, b.data(), n); }
    ~Exact() { free(p); }
    Exact(const Exact &) = delete; Exact &operator=(const Exact &) = delete;
};

// Run-level epilogue shared by all worlds: leaks, canaries, bad returns, unexpected error callbacks.
void monitors_epilogue(Result &r, int64_t expected_illegal, int64_t expected_error);

// header-derived (written by the driver from /repo/include at check time): does the documentation of `api` say
// "(not secp256k1_context_static)"?  Unknown names count as not documented.
bool documented_not_static(const char *api);
// the context a careful-but-frugal caller would use for `api`: the static one whenever the header allows it
inline const secp256k1_context *frugal_ctx(bool want_static, const secp256k1_context *full, const char *api) { return (want_static && !documented_not_static(api)) ? secp256k1_context_static : full; }

// independent SHA-256 compression function (the model's) for the compression seam
extern "C" void sim_model_compression(uint32_t *state, const unsigned char *blocks, size_t n);

}  // namespace sim
