// World `swap` (C14): two-party ECDSA adaptor-signature exchange (several swaps at once) over a faulty
// network with a relaying observer that may malleate the published signature.
#include "../net.h"
#include "../seams.h"
#include "../ref/ref.h"
extern "C" {
#include <secp256k1.h>
#include <secp256k1_ecdsa_adaptor.h>
}

namespace sim {
namespace {

enum { K_ENCKEY, K_ADAPTOR, K_PUBLISH, K_RELAY, K_NK };
const char *const KN[] = {"ENCKEY", "ADAPTOR", "PUBLISH", "RELAY"};
enum { F_MALLEATE = NF_WORLD1 };

struct NonceCtl { int fail_at = -1; int kind = 0; int calls = 0; const unsigned char *aux = nullptr; bool want_alias = false; unsigned char fixed_k[32]; };
int ctl_nonce(unsigned char *nonce32, const unsigned char *msg32, const unsigned char *key32, const unsigned char *pk33, const unsigned char *algo, size_t algolen, void *data) {
    NonceCtl *c = (NonceCtl *)data;
    int idx = c->calls++;
    if (idx == c->fail_at) {
        if (c->kind == 1) return 0;                          // "usually successful call fails"
        if (c->kind == 2) { memset(nonce32, 0, 32); return 1; }   // zero nonce
    }
    if ((c->kind == 4 || c->kind == 5) && idx == 0) { memcpy(nonce32, c->fixed_k, 32); return 1; }   // a nonce committed to before the message was known
    if (c->kind >= 3) {   // custom but deterministic nonce source
        ref::Sha256 h; h.write(msg32, 32); h.write(key32, 32); h.write(pk33, 33); h.write(algo, algolen); uint8_t i = (uint8_t)idx; h.write(&i, 1); h.finish(nonce32);
        return 1;
    }
    return secp256k1_nonce_function_ecdsa_adaptor(nonce32, msg32, key32, pk33, algo, algolen, (void *)c->aux);
}

struct SwapSim {
    const Plan &p; Result &r; Net net;
    secp256k1_context *ctx = nullptr;     // Alice's context
    secp256k1_context *bctx = nullptr;    // Bob's context (artifacts cross between differently configured contexts)
    uint64_t inseed = 0, draw = 0;
    int k = 1; bool bob_static = false;
    struct S {
        uint8_t x[32], y[32], msg[32]; secp256k1_pubkey X, Y; uint8_t X33[33], Y33[33]; ref::Pt Xpt, Ypt;
        // Alice
        bool a_has_y = false; uint8_t a_y33[33]; bool a_y_intact = false; Bytes a_adaptor; bool a_failed = false;
        // Bob
        Bytes b_sig;   // decrypted signature (compact), empty if none
        bool recovered = false;
    };
    std::vector<S> sw;
    std::set<int> aliased_failed;
    SwapSim(const Plan &p_, Result &r_) : p(p_), r(r_) {}
    void fresh32(uint8_t *out) { uint8_t b[16]; for (int i = 0; i < 8; i++) { b[i] = (uint8_t)(inseed >> (8 * i)); b[8 + i] = (uint8_t)(draw >> (8 * i)); } draw++; ref::sha256(b, 16, out); }
    const Op *find(const char *kname, int swap) const { for (const Op &o : p.ops) if (o.k == kname && o.arg(0) == swap) return &o; return nullptr; }

    void alice_on_enckey(const Msg &m) {
        int s = m.sid; if (s < 0 || s >= k) return;
        S &w = sw[s];
        if (w.a_has_y || w.a_failed) return;
        secp256k1_pubkey Y;
        bool ok = (m.bytes.size() == 33 || m.bytes.size() == 65) && L01(secp256k1_ec_pubkey_parse(ctx, &Y, m.bytes.data(), m.bytes.size()));
        { ref::Pt q; bool mp = (m.bytes.size() == 33 || m.bytes.size() == 65) && ref::parse_pubkey(m.bytes.data(), m.bytes.size(), &q); r.cmp();
          if (ok != mp) { r.violate("C14", "parse", "secp256k1_ec_pubkey_parse", "library and model disagree on a received encryption key " + hex(m.bytes)); return; } }
        if (!ok) { r.probe("enckey_rejected"); return; }
        size_t l = 33; L01(secp256k1_ec_pubkey_serialize(ctx, w.a_y33, &l, &Y, SECP256K1_EC_COMPRESSED));
        w.a_has_y = true; w.a_y_intact = memcmp(w.a_y33, w.Y33, 33) == 0;
        // encrypt, with the nonce source the plan dictates
        NonceCtl ctl; uint8_t aux[32]; fresh32(aux);
        const Op *nf = find("noncefault", s);
        bool use_cb = false, expect_fail = false;
        if (nf) { ctl.kind = (int)(nf->arg(1) % 6); ctl.fail_at = (int)(nf->arg(2) % 2); use_cb = true; if (nf->arg(3) & 1) ctl.aux = aux; expect_fail = ctl.kind == 1 || ctl.kind == 2; if (ctl.kind) r.fault("nonce_cb." + std::to_string(ctl.kind)); }
        if (ctl.kind == 4 || ctl.kind == 5) {
            // Alice committed to her nonce k before the message was fixed, and the message that is then agreed happens to be the one
            // for which s' = k^-1 (m + R.x x) is 0 (kind 4: encryption must fail, output zeroed) or 1 / n-1 (kind 5: must work)
            fresh32(ctl.fixed_k); ctl.fixed_k[0] &= 0x7f; ctl.fixed_k[31] |= 1;
            ref::Pt Yrx; ref::parse_pubkey(w.a_y33, 33, &Yrx);
            ref::U256 kk = ref::U256::from_be(ctl.fixed_k), rr = ref::FN.reduce(ref::mul(kk, Yrx).x), xs = ref::U256::from_be(w.x);
            ref::U256 T = ctl.kind == 4 ? ref::U256() : ((nf->arg(3) & 2) ? ref::FN.neg(ref::U256(1)) : ref::U256(1));
            ref::FN.sub(ref::FN.mul(T, kk), ref::FN.mul(rr, xs)).to_be(w.msg);
            expect_fail = ctl.kind == 4;
            r.probe(ctl.kind == 4 ? "message_makes_encrypted_scalar_zero" : "message_makes_encrypted_scalar_boundary");
        }
        Buf out(162); uint8_t skc[32]; memcpy(skc, w.x, 32);
        // the caller may keep the message (or its key copy) inside the work buffer that also receives the output
        const Op *al = find("alias", s);
        const unsigned char *msgp = w.msg; unsigned char *skp = skc;
        if (al && !use_cb) {
            int mode = (int)(al->arg(1) % 2);
            if (mode == 0) { memcpy(out.p(), w.msg, 32); msgp = out.p(); r.fault("alias_msg_in_output"); }
            else { memcpy(out.p() + 33, w.x, 32); skp = out.p() + 33; r.fault("alias_key_in_output"); }
            ctl.want_alias = true;
        }
        MonMark mk = mon_mark();
        int e = use_cb ? L01(secp256k1_ecdsa_adaptor_encrypt(ctx, out.p(), skc, &Y, w.msg, ctl_nonce, &ctl))
                       : L01(secp256k1_ecdsa_adaptor_encrypt(ctx, out.p(), skp, &Y, msgp, NULL, (s & 1) ? aux : NULL));
        r.cmp();
        if (!mon_quiet_since(mk)) { r.violate("C14", "callback", "secp256k1_ecdsa_adaptor_encrypt", "callback on valid arguments"); return; }
        if (!ctl.want_alias && memcmp(skc, w.x, 32) != 0) { r.violate("C14", "seckey_modified", "secp256k1_ecdsa_adaptor_encrypt", "the secret key argument was modified"); return; }
        Bytes ob = out.bytes();
        bool allz = true; for (auto b : ob) if (b) allz = false;
        if ((e != 0) == expect_fail) { r.violate("C14", "encrypt_result", "secp256k1_ecdsa_adaptor_encrypt", std::string("encrypt returned ") + std::to_string(e) + (expect_fail ? " although the nonce callback failed" : " on valid arguments")); return; }
        if (!e && !allz) { r.violate("C14", "encrypt_not_zeroed", "secp256k1_ecdsa_adaptor_encrypt", "encrypt failed but the 162-byte output is not all-zero"); return; }
        if (!e) { w.a_failed = true; r.probe("encrypt_failed_zeroed"); return; }
        w.a_adaptor = ob;
        // the encryptor's own artefact must verify for her key (completeness), and only for the right keys / message
        int v = L01(secp256k1_ecdsa_adaptor_verify(ctx, ob.data(), &w.X, w.msg, &Y));
        r.cmp();
        if (!v && ctl.want_alias) {
            // Overlapping input and output buffers are not a documented guarantee of the API: observed, never required.
            r.probe("aliased_encrypt_output_does_not_verify"); w.a_failed = true; w.a_adaptor.clear(); aliased_failed.insert(s); return;
        }
        if (ctl.want_alias) r.probe("aliased_encrypt_ok");
        if (!v) { r.violate("C14", "completeness", "secp256k1_ecdsa_adaptor_verify", "a freshly made adaptor signature does not verify (msg " + hex(w.msg, 32) + ")"); return; }
        Msg o; o.kind = K_ADAPTOR; o.sid = s; o.from = 0; o.to = 1; o.bytes = ob; net.send(o);
    }
    void bob_on_adaptor(const Msg &m) {
        int s = m.sid; if (s < 0 || s >= k) return;
        S &w = sw[s];
        if (!w.b_sig.empty()) return;
        if (m.bytes.size() != 162) { r.probe("adaptor_wrong_length_dropped"); return; }
        Buf in(m.bytes.data(), 162);
        MonMark mk = mon_mark();
        int v = L01(secp256k1_ecdsa_adaptor_verify(frugal_ctx(bob_static, bctx, "secp256k1_ecdsa_adaptor_verify"), in.p(), &w.X, w.msg, &w.Y));
        r.cmp();
        if (!mon_quiet_since(mk)) { r.violate("C14", "callback", "secp256k1_ecdsa_adaptor_verify", "callback on received bytes: " + g_mon.last_illegal); return; }
        // the verdict is the documented predicate (reference model: parse rules, DLEQ proof, R' == s'^-1 (m G + R.x X))
        { bool mvd = ref::adaptor_verify(m.bytes.data(), w.Xpt, w.msg, w.Ypt); r.cmp();
          if ((v != 0) != mvd) { r.violate("C14", "verify_model", "secp256k1_ecdsa_adaptor_verify", std::string("library verdict ") + std::to_string(v) + " but the reference model says " + std::to_string(mvd) + " for " + hex(m.bytes).substr(0, 80) + "..."); return; } }
        // genuine: the bytes are an adaptor signature Alice made for exactly this (X, msg, Y) - possibly in a twin swap with identical parameters
        bool genuine = false;
        for (auto &o : sw) if (!o.a_adaptor.empty() && m.bytes == o.a_adaptor && memcmp(o.X33, w.X33, 33) == 0 && memcmp(o.msg, w.msg, 32) == 0 && memcmp(o.a_y33, w.Y33, 33) == 0) genuine = true;
        if (genuine && !v) { r.violate("C14", "completeness", "secp256k1_ecdsa_adaptor_verify", "Bob rejects Alice's genuine adaptor signature"); return; }
        if (!genuine && v) { r.violate("C14", "soundness", "secp256k1_ecdsa_adaptor_verify", std::string("adaptor verify accepted bytes that are not Alice's adaptor signature for this swap (") + (m.misdelivered ? "another swap's" : "altered") + ")"); return; }
        if (!v) { r.probe("adaptor_rejected"); return; }
        // decrypt, possibly from an erased key record
        uint8_t dk[32]; memcpy(dk, w.y, 32);
        const Op *kf = find("keyfault", s);
        bool erased = false;
        if (kf) { memset(dk, (kf->arg(1) & 1) ? 0xff : 0x00, 32); erased = true; r.fault("key_record_erased"); }
        secp256k1_ecdsa_signature sig; uint8_t sb[64];
        mk = mon_mark();
        int d = L01(secp256k1_ecdsa_adaptor_decrypt(frugal_ctx(bob_static, bctx, "secp256k1_ecdsa_adaptor_decrypt"), &sig, dk, in.p()));
        L01(secp256k1_ecdsa_signature_serialize_compact(bctx, sb, &sig));
        r.cmp();
        if (!mon_quiet_since(mk)) { r.violate("C14", "callback", "secp256k1_ecdsa_adaptor_decrypt", "callback"); return; }
        if ((d != 0) == erased) { r.violate("C14", "decrypt_result", "secp256k1_ecdsa_adaptor_decrypt", std::string("decrypt returned ") + std::to_string(d) + (erased ? " with an invalid decryption key" : " with the right key")); return; }
        if (!d) { bool z = true; for (int i = 0; i < 64; i++) if (sb[i]) z = false; if (!z) { r.violate("C14", "decrypt_not_zeroed", "secp256k1_ecdsa_adaptor_decrypt", "failed decrypt left a non-zero signature"); return; } r.probe("decrypt_failed_zeroed"); return; }
        // the decrypted signature is a valid low-S ECDSA signature for Alice's key (library and model)
        int lv = L01(secp256k1_ecdsa_verify(frugal_ctx(bob_static, bctx, "secp256k1_ecdsa_verify"), &sig, w.msg, &w.X));
        bool mv = ref::ecdsa_verify(w.Xpt, w.msg, sb, sb + 32);
        r.cmp();
        if (!lv || !mv) { r.violate("C14", "decrypted_invalid", "secp256k1_ecdsa_adaptor_decrypt", "decrypted signature is not a valid low-S ECDSA signature (library " + std::to_string(lv) + ", model " + std::to_string(mv) + ")"); return; }
        w.b_sig.assign(sb, sb + 64);
        Msg o; o.kind = K_PUBLISH; o.sid = s; o.from = 1; o.to = 2; o.bytes = w.b_sig; net.send(o);
    }
    void observer_on(const Msg &m) { Msg o = m; o.kind = K_RELAY; o.from = 2; o.to = 0; o.bytes = m.bytes; net.send(o); }
    void alice_on_publish(const Msg &m) {
        int s = m.sid; if (s < 0 || s >= k) return;
        S &w = sw[s];
        if (w.a_adaptor.empty() || !w.a_has_y || m.bytes.size() != 64) return;
        secp256k1_ecdsa_signature sig;
        if (!L01(secp256k1_ecdsa_signature_parse_compact(ctx, &sig, m.bytes.data()))) { r.probe("published_sig_unparsable"); return; }
        secp256k1_pubkey Y;
        if (!L01(secp256k1_ec_pubkey_parse(ctx, &Y, w.a_y33, 33))) return;
        Buf dk(32);
        MonMark mk = mon_mark();
        int rc = L01(secp256k1_ecdsa_adaptor_recover(ctx, dk.p(), &sig, w.a_adaptor.data(), &Y));
        r.cmp();
        if (!mon_quiet_since(mk)) { r.violate("C14", "callback", "secp256k1_ecdsa_adaptor_recover", "callback on parsed arguments: " + g_mon.last_illegal); return; }
        // provenance: the signature belongs to the adaptor iff it is Bob's decryption of it or its negated-s twin
        bool belongs = false; bool is_twin = false;
        for (auto &o : sw) {
            // Bob's decryption (in this swap or a twin swap with the same adaptor signature and keys) or its negated-s twin
            if (o.b_sig.empty() || o.a_adaptor != w.a_adaptor || memcmp(o.Y33, w.a_y33, 33) != 0 || memcmp(o.y, w.y, 32) != 0) continue;
            Bytes twin = o.b_sig; ref::U256 sv = ref::FN.neg(ref::U256::from_be(&twin[32])); sv.to_be(&twin[32]);
            if (m.bytes == o.b_sig) belongs = true;
            if (m.bytes == twin) { belongs = true; is_twin = true; }
        }
        if (is_twin) r.probe("recover_from_malleated_twin");
        if (belongs && (!rc || memcmp(dk.p(), w.y, 32) != 0)) { r.violate("C14", "recover_wrong", "secp256k1_ecdsa_adaptor_recover", std::string("recover ") + (rc ? "returned a wrong decryption key" : "refused") + " for the genuine published signature" + (is_twin ? " (negated-s twin)" : "")); return; }
        if (!belongs && rc) { r.violate("C14", "recover_accepts_foreign", "secp256k1_ecdsa_adaptor_recover", "recover accepted a signature that does not belong to this adaptor signature / encryption key"); return; }
        if (rc) { w.recovered = true; r.probe("swap_completed"); } else r.probe("recover_refused");
    }
    // A third party (an escrow, an auditor) is shown adaptor signatures by an encryptor who builds them herself instead of calling
    // the library - every structural rule holds, including an honest DLEQ proof, except the one the type names. Verdicts must be
    // the documented predicate's (reference model); decrypt and recover must stay well defined on whatever verify accepted or not.
    void audit(const Op &o) {
        int type = (int)(o.arg(0) % 9);
        uint8_t xb[32], kb[32], db[32], msg[32], yb[32];
        fresh32(xb); xb[0] &= 0x7f; xb[31] |= 1; fresh32(kb); kb[0] &= 0x7f; kb[31] |= 1; fresh32(db); db[0] &= 0x7f; db[31] |= 1; fresh32(msg); fresh32(yb); yb[0] &= 0x7f; yb[31] |= 1;
        ref::U256 x = ref::U256::from_be(xb), kk = ref::U256::from_be(kb), dn = ref::U256::from_be(db), y = ref::U256::from_be(yb);
        ref::Pt X = ref::mulG(x), Y = ref::mulG(y);
        bool knows_y = true;
        if (type == 1) {   // R has x-coordinate n (so R.x mod n == 0): choose R first, then the encryption key Y = k^-1 R
            ref::Pt R;
            if (!ref::lift_x(ref::FN.m, &R)) { r.probe("audit_x_equal_n_not_on_curve"); return; }
            if (o.arg(1) & 1) R.y = ref::FP.neg(R.y);
            Y = ref::mul(ref::FN.inv(kk), R); knows_y = false;
        }
        ref::U256 rr = ref::FN.reduce(ref::mul(kk, Y).x);
        uint8_t sp[32]; ref::FN.mul(ref::FN.inv(kk), ref::FN.add(ref::scalar_from_be_reduce(msg), ref::FN.mul(rr, x))).to_be(sp);
        if (type == 2) memset(sp, 0, 32);
        if (type == 3) ref::FN.m.to_be(sp);
        if (type == 7 || type == 8) {
            // a tiny s' = t (the message is chosen for it): valid as it is (type 8); as t + n it still fits in 32 bytes and must be
            // rejected as out of range (type 7) although it is the same residue
            ref::U256 t((uint64_t)(1 + (o.arg(1) >> 1) % 200));
            ref::FN.sub(ref::FN.mul(t, kk), ref::FN.mul(rr, x)).to_be(msg);
            t.to_be(sp);
            if (type == 7) { uint8_t nb[32]; ref::FN.m.to_be(nb); unsigned c = 0; for (int i = 31; i >= 0; i--) { unsigned v = (unsigned)sp[i] + nb[i] + c; sp[i] = (uint8_t)v; c = v >> 8; } }
        }
        uint8_t a[162]; ref::adaptor_craft(kk, Y, sp, dn, a);
        ref::Pt Xv = X; uint8_t mv[32]; memcpy(mv, msg, 32);
        if (type == 4) Xv = ref::add(X, ref::G);
        if (type == 5) mv[31] ^= 1;
        if (type == 6) a[33] ^= 1;   // R' negated
        uint8_t X33[33], Y33[33]; ref::ser33(Xv, X33); ref::ser33(Y, Y33);
        secp256k1_pubkey Xl, Yl;
        if (!L01(secp256k1_ec_pubkey_parse(bctx, &Xl, X33, 33)) || !L01(secp256k1_ec_pubkey_parse(bctx, &Yl, Y33, 33))) { r.violate("C14", "setup", "secp256k1_ec_pubkey_parse", "auditor keys do not parse"); return; }
        Exact in(Bytes(a, a + 162));
        MonMark mk = mon_mark();
        int v = L01(secp256k1_ecdsa_adaptor_verify(frugal_ctx(bob_static, bctx, "secp256k1_ecdsa_adaptor_verify"), in.p, &Xl, mv, &Yl));
        bool mvd = ref::adaptor_verify(a, Xv, mv, Y);
        r.cmp();
        r.fault("crafted_adaptor." + std::to_string(type));
        if (!mon_quiet_since(mk)) { r.violate("C14", "callback", "secp256k1_ecdsa_adaptor_verify", "callback on a crafted adaptor signature"); return; }
        if ((v != 0) != mvd) { r.violate("C14", "verify_model", "secp256k1_ecdsa_adaptor_verify", std::string("crafted adaptor signature type ") + std::to_string(type) + ": library verdict " + std::to_string(v) + ", reference model " + std::to_string(mvd)); return; }
        if ((type == 0 || type == 8) != mvd) { r.violate("C14", "model_selfcheck", "ref::adaptor_verify", "the crafted signature of type " + std::to_string(type) + " has an unexpected model verdict"); return; }
        r.probe(v ? "crafted_adaptor_accepted" : "crafted_adaptor_rejected");
        // decrypt / recover stay defined; for the honest craft they round-trip
        secp256k1_ecdsa_signature sig; uint8_t sb[64], dk[32];
        mk = mon_mark();
        int d = L01(secp256k1_ecdsa_adaptor_decrypt(frugal_ctx(bob_static, bctx, "secp256k1_ecdsa_adaptor_decrypt"), &sig, yb, in.p));
        L01(secp256k1_ecdsa_signature_serialize_compact(bctx, sb, &sig));
        int rc = L01(secp256k1_ecdsa_adaptor_recover(bctx, dk, &sig, in.p, &Yl));
        r.cmp();
        if (!mon_quiet_since(mk)) { r.violate("C14", "callback", "secp256k1_ecdsa_adaptor_decrypt", "callback on a crafted adaptor signature"); return; }
        if (type == 0 || type == 8) {
            if (!d || !ref::ecdsa_verify(X, msg, sb, sb + 32)) { r.violate("C14", "decrypted_invalid", "secp256k1_ecdsa_adaptor_decrypt", "an accepted crafted adaptor signature does not decrypt to a valid signature"); return; }
            if (!rc || memcmp(dk, yb, 32) != 0) { r.violate("C14", "recover_wrong", "secp256k1_ecdsa_adaptor_recover", "recover does not return the decryption key for a crafted, accepted adaptor signature"); return; }
        }
        (void)knows_y;
    }
    void run() {
        inseed = (uint64_t)p.c("inseed");
        k = (int)std::max<int64_t>(1, std::min<int64_t>(4, p.c("swaps", 1)));
        bob_static = p.c("bob_static"); if (bob_static) r.fault("bob_uses_static_context");
        ctx = L(secp256k1_context_create(SECP256K1_CONTEXT_NONE));
        if (p.c("rand_ctx")) { uint8_t s[32]; fresh32(s); (void)L(secp256k1_context_randomize(ctx, s)); }
        bctx = L(secp256k1_context_create(SECP256K1_CONTEXT_NONE));
        if (p.c("comp_a")) { L(secp256k1_context_set_sha256_compression(ctx, sim_model_compression)); r.fault("alice_replaced_compression"); }
        if (p.c("comp_b")) { L(secp256k1_context_set_sha256_compression(bctx, sim_model_compression)); r.fault("bob_replaced_compression"); }
        sw.resize(k);
        for (int i = 0; i < k; i++) {
            S &w = sw[i];
            fresh32(w.x); w.x[0] &= 0x7f; w.x[31] |= 1; fresh32(w.y); w.y[0] &= 0x7f; w.y[31] |= 1; fresh32(w.msg);
            const Op *c = find("class", i);
            if (c) {
                int kc = (int)(c->arg(1) % 4), mc = (int)(c->arg(2) % 4);
                if (kc == 1) { memset(w.x, 0, 32); w.x[31] = 1; } if (kc == 2) { ref::U256 v = ref::FN.neg(ref::U256(1)); v.to_be(w.y); } if (kc == 3) { memset(w.y, 0, 32); w.y[31] = 1; }
                if (mc == 1) memset(w.msg, 0, 32); if (mc == 2) memset(w.msg, 0xff, 32); if (mc == 3) ref::FN.m.to_be(w.msg);
            }
            size_t l = 33;
            if (!L01(secp256k1_ec_pubkey_create(ctx, &w.X, w.x)) || !L01(secp256k1_ec_pubkey_create(ctx, &w.Y, w.y))) { r.violate("C14", "setup", "secp256k1_ec_pubkey_create", "setup failed"); cleanup(); return; }
            L01(secp256k1_ec_pubkey_serialize(ctx, w.X33, &l, &w.X, SECP256K1_EC_COMPRESSED)); l = 33; L01(secp256k1_ec_pubkey_serialize(ctx, w.Y33, &l, &w.Y, SECP256K1_EC_COMPRESSED));
            w.Xpt = ref::mulG(ref::U256::from_be(w.x)); w.Ypt = ref::mulG(ref::U256::from_be(w.y));
        }
        net.init(&p, &r, KN);
        net.on_deliver = [&](const Msg &m) {
            if (!r.ok) return;
            if (m.kind == K_ENCKEY) alice_on_enckey(m); else if (m.kind == K_ADAPTOR) bob_on_adaptor(m); else if (m.kind == K_PUBLISH) observer_on(m); else if (m.kind == K_RELAY) alice_on_publish(m);
        };
        net.world_fault = [&](int f, Msg &m, int64_t, int64_t) -> bool {
            if (f == F_MALLEATE && m.kind == K_ADAPTOR && m.bytes.size() == 162) {
                // negate the encrypted scalar s' (bytes 66..97 of R || R' || s' || e || s)
                ref::U256 sp = ref::U256::from_be(&m.bytes[66]);
                if (sp.is_zero() || !(sp < ref::FN.m)) return false;
                ref::FN.neg(sp).to_be(&m.bytes[66]);
                return true;
            }
            if (f != F_MALLEATE || m.kind != K_RELAY || m.bytes.size() != 64) return false;
            ref::U256 sv = ref::U256::from_be(&m.bytes[32]);
            if (sv.is_zero() || !(sv < ref::FN.m)) return false;
            ref::FN.neg(sv).to_be(&m.bytes[32]);   // third-party malleation: (r, s) -> (r, n - s)
            return true;
        };
        for (int i = 0; i < k; i++) { Msg o; o.kind = K_ENCKEY; o.sid = i; o.from = 1; o.to = 0; o.bytes.assign(sw[i].Y33, sw[i].Y33 + 33); net.send(o); }
        bool capped = false;
        while (r.ok && net.step(&capped)) {}
        if (capped) r.violate("C14", "step_cap", "run", "step cap hit");
        for (const Op &o : p.ops) if (o.k == "audit" && r.ok) audit(o);
        // liveness: a swap untouched by any fault completes
        for (int i = 0; i < k && r.ok; i++) {
            bool touched = net.fault_sids.count(i) || find("noncefault", i) || find("keyfault", i) || aliased_failed.count(i);
            r.cmp();
            if (!touched && !sw[i].recovered) r.violate("C14", "liveness", "protocol", "swap " + std::to_string(i) + " had no fault injected but did not complete");
        }
        cleanup();
    }
    void cleanup() { if (ctx) L(secp256k1_context_destroy(ctx)); ctx = nullptr; if (bctx) L(secp256k1_context_destroy(bctx)); bctx = nullptr; monitors_epilogue(r, r.expected_illegal, r.expected_error); }
};

}  // namespace

static Plan swap_generate(uint64_t seed, int) {
    Rng g(seed);
    Plan p;
    p.cfg["inseed"] = (int64_t)(g.next() >> 1);
    int k = (int)g.range(1, 4);
    p.cfg["swaps"] = k; p.cfg["rand_ctx"] = (int64_t)g.below(2); p.cfg["bob_static"] = g.chance(1, 3); p.cfg["comp_a"] = g.chance(1, 4); p.cfg["comp_b"] = g.chance(1, 4);
    for (int i = 0; i < k; i++) {
        if (g.chance(1, 3)) { Op o; o.k = "class"; o.a = {i, (int64_t)g.below(4), (int64_t)g.below(4)}; p.ops.push_back(o); }
        if (g.chance(1, 4)) { Op o; o.k = "noncefault"; o.a = {i, (int64_t)g.below(6), (int64_t)g.below(2), (int64_t)g.below(4)}; p.ops.push_back(o); }
        if (g.chance(1, 8)) { Op o; o.k = "keyfault"; o.a = {i, (int64_t)g.below(2)}; p.ops.push_back(o); }
        if (g.chance(1, 8)) { Op o; o.k = "alias"; o.a = {i, (int64_t)g.below(2)}; p.ops.push_back(o); }
    }
    int nd = (int)g.range(0, 2 * k);
    for (int i = 0; i < nd; i++) { Op o; o.k = "nd"; int kind = (int)g.below(K_NK); static const int fr[] = {1, 0, 1, 2}, to[] = {0, 1, 2, 0}; o.a = {kind, (int64_t)g.below(k), 0, fr[kind], to[kind], (int64_t)g.range(0, 30)}; p.ops.push_back(o); }
    int mode = (int)g.below(5);
    if (mode >= 1) {
        int nf = (int)g.range(1, mode >= 3 ? 6 : 2);
        for (int i = 0; i < nf; i++) {
            Op o; o.k = "nf"; int kind = (int)g.below(K_NK); static const int fr[] = {1, 0, 1, 2}, to[] = {0, 1, 2, 0};
            uint64_t w = g.below(100); int f;
            if (w < 6) f = NF_DROP; else if (w < 14) f = NF_DUP; else if (w < 40) f = NF_FLIP; else if (w < 50) f = NF_SET; else if (w < 58) f = NF_ZERO; else if (w < 64) f = NF_FF;
            else if (w < 69) f = NF_TRUNC; else if (w < 73) f = NF_EXT; else if (w < 80) f = NF_SPLICE; else if (w < 90) f = NF_MISDELIVER; else { f = F_MALLEATE; kind = g.chance(1, 2) ? K_RELAY : K_ADAPTOR; }
            int64_t a1 = (int64_t)g.below(1 << 16);
            if ((f == NF_FLIP || f == NF_SET) && kind == K_ADAPTOR && g.chance(1, 3)) {
                // bias towards field boundaries of the 162-byte format: prefix bytes and leading scalar bytes
                static const int fld[] = {0, 33, 66, 98, 130, 32, 65, 97, 129, 161};
                int off = fld[g.below(10)];
                a1 = f == NF_FLIP ? off * 8 + (int64_t)g.below(8) : off;
            }
            o.a = {kind, (int64_t)g.below(k), 0, fr[kind], to[kind], f, a1, (int64_t)g.below(256)};
            p.ops.push_back(o);
        }
    }
    { int na = (int)g.below(3); for (int i = 0; i < na; i++) { Op o; o.k = "audit"; o.a = {(int64_t)g.below(9), (int64_t)g.below(1 << 12)}; p.ops.push_back(o); } }
    return p;
}
static void swap_execute(const Plan &p, const ExecOpts &, Result &r) { SwapSim w(p, r); w.run(); }
static const World swap_world = {"swap", "C14", swap_generate, swap_execute};
SIM_REGISTER_WORLD(swap_world)

}  // namespace sim
