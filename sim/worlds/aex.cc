// World `aex` (C15): host <-> stateless signing device running the anti-exfil protocol of
// include/secp256k1_ecdsa_s2c.h over a faulty network, with device restarts / context changes and
// host crash-restart (rho is durable). Oracles are provenance based + ECDSA validity in the model.
#include "../net.h"
#include "../seams.h"
#include "../ref/ref.h"
extern "C" {
#include <secp256k1.h>
#include <secp256k1_ecdsa_s2c.h>
}

namespace sim {
namespace {

enum { K_COMMIT_REQ, K_OPENING, K_SIGN_REQ, K_SIG, K_NK };
const char *const KN[] = {"COMMIT_REQ", "OPENING", "SIGN_REQ", "SIG"};
enum { F_MALLEATE = NF_WORLD1 };

struct DevRec { int type; Bytes in; Bytes out; Bytes raw; };   // type 0: signer_commit(msg||c) -> opening33 ; 1: anti_exfil_sign(msg||rho) -> sig64

struct AexSim {
    const Plan &p; Result &r; Net net;
    secp256k1_context *hctx = nullptr, *dctx = nullptr;
    const secp256k1_context *vctx = nullptr;   // what the host verifies with: its own context or secp256k1_context_static (the header allows both)
    uint64_t inseed = 0, draw = 0;
    uint8_t sk[32]; secp256k1_pubkey pk; ref::Pt pkpt;
    // host
    struct Host { Disk disk; int run = -1; int stage = 0; int tries = 0; uint8_t msg[32], rho[32], commit[32]; Bytes opening; bool opening_intact = false; bool run_faulty = false; } H;
    int nruns = 1;
    std::vector<int> msgclass, reuse_rho;
    std::vector<DevRec> dev;
    int dreq = 0;
    int done_runs = 0, ok_runs = 0;
    std::vector<Bytes> all_rho, all_open;   // for cross checks of verify_commit

    AexSim(const Plan &p_, Result &r_) : p(p_), r(r_) {}
    void fresh32(uint8_t *out) { uint8_t b[16]; for (int i = 0; i < 8; i++) { b[i] = (uint8_t)(inseed >> (8 * i)); b[8 + i] = (uint8_t)(draw >> (8 * i)); } draw++; ref::sha256(b, 16, out); }

    void make_msg(int cls, uint8_t *m) {
        fresh32(m);
        if (cls == 1) memset(m, 0xff, 32);
        else if (cls == 2) { ref::FN.m.to_be(m); m[31] += 1; }    // n + 1
        else if (cls == 3) memset(m, 0, 32);
        else if (cls == 4) { ref::FN.m.to_be(m); }                 // exactly n
    }
    // ---------------------------------------------------------------- device (stateless)
    void dev_ctx_events() {
        for (const Op &o : p.ops) {
            if (o.k != "dctx" || o.arg(0) != dreq) continue;
            int kind = (int)(o.arg(1) % 4);
            if (kind == 0) { uint8_t s[32]; fresh32(s); (void)L(secp256k1_context_randomize(dctx, s)); }
            else if (kind == 1) { L(secp256k1_context_destroy(dctx)); dctx = L(secp256k1_context_create(SECP256K1_CONTEXT_NONE)); }
            else if (kind == 2) L(secp256k1_context_set_sha256_compression(dctx, sim_model_compression));
            else L(secp256k1_context_set_sha256_compression(dctx, NULL));
            r.fault("device_ctx." + std::to_string(kind));
            r.ev("device context event " + std::to_string(kind));
        }
    }
    // ECDSA sees messages modulo n: (msg, x) and (msg + n, x) are the same signing request
    static Bytes canon(const Bytes &in) { Bytes c = in; ref::U256 m = ref::scalar_from_be_reduce(in.data()); m.to_be(c.data()); return c; }
    void dev_record(int type, const Bytes &in_raw, const Bytes &out) {
        Bytes in = canon(in_raw);
        // determinism: same inputs -> same bytes, whatever happened to the device in between
        for (auto &d : dev) {
            if (d.type != type) continue;
            r.cmp();
            if (d.in == in && d.out != out) { r.violate("C15", "nondeterministic", type ? "secp256k1_anti_exfil_sign" : "secp256k1_ecdsa_anti_exfil_signer_commit", "same (msg, key, host data) gave different outputs across device restarts / context changes"); return; }
            if (d.in != in && type == 0 && d.out == out) { r.violate("C15", "opening_repeat", "secp256k1_ecdsa_anti_exfil_signer_commit", "two different (msg, commitment) inputs gave the same opening: host randomness is not bound into the nonce"); return; }
            if (d.in != in && type == 1 && memcmp(d.out.data(), out.data(), 32) == 0) {
                // two ECDSA signatures with the same r under one key: the key follows
                std::string ex;
                ref::U256 s1 = ref::U256::from_be(d.out.data() + 32), s2 = ref::U256::from_be(out.data() + 32);
                ref::U256 m1 = ref::scalar_from_be_reduce(d.in.data()), m2 = ref::scalar_from_be_reduce(in.data());
                ref::U256 rr = ref::U256::from_be(out.data());
                for (int sg = 0; sg < 2 && ex.empty(); sg++) {
                    ref::U256 s2x = sg ? ref::FN.neg(s2) : s2;
                    ref::U256 den = ref::FN.sub(s1, s2x);
                    if (den.is_zero()) continue;
                    ref::U256 k = ref::FN.mul(ref::FN.sub(m1, m2), ref::FN.inv(den));
                    ref::U256 dd = ref::FN.mul(ref::FN.sub(ref::FN.mul(s1, k), m1), ref::FN.inv(rr));
                    if (ref::mulG(dd) == pkpt) { uint8_t b[32]; dd.to_be(b); ex = " ; extracted secret key " + hex(b, 32); }
                }
                r.violate("C15", "nonce_reuse", "secp256k1_anti_exfil_sign", "two signatures for different (msg, host data) share r" + ex);
                return;
            }
        }
        dev.push_back(DevRec{type, in, out, in_raw});
    }
    void dev_on(const Msg &m) {
        dev_ctx_events();
        dreq++;
        if (m.bytes.size() != 64) return;
        if (m.kind == K_COMMIT_REQ) {
            secp256k1_ecdsa_s2c_opening op; uint8_t ob[33];
            MonMark mk = mon_mark();
            int ok = L01(secp256k1_ecdsa_anti_exfil_signer_commit(dctx, &op, m.bytes.data(), sk, m.bytes.data() + 32));
            ok = ok && L01(secp256k1_ecdsa_s2c_opening_serialize(dctx, ob, &op));
            r.cmp();
            if (!ok || !mon_quiet_since(mk)) { r.violate("C15", "signer_commit_failed", "secp256k1_ecdsa_anti_exfil_signer_commit", "signer_commit failed on valid arguments"); return; }
            dev_record(0, m.bytes, Bytes(ob, ob + 33));
            Msg o; o.kind = K_OPENING; o.sid = m.sid; o.attempt = m.attempt; o.from = 1; o.to = 0; o.bytes.assign(ob, ob + 33);
            net.send(o);
        } else if (m.kind == K_SIGN_REQ) {
            secp256k1_ecdsa_signature sig, sig2; secp256k1_ecdsa_s2c_opening op2; uint8_t sb[64], sb2[64], ob2[33];
            MonMark mk = mon_mark();
            int ok = L01(secp256k1_anti_exfil_sign(dctx, &sig, m.bytes.data(), sk, m.bytes.data() + 32));
            ok = ok && L01(secp256k1_ecdsa_signature_serialize_compact(dctx, sb, &sig));
            // the general sign-to-contract entry point must agree and export the opening committed to earlier
            int ok2 = L01(secp256k1_ecdsa_s2c_sign(dctx, &sig2, &op2, m.bytes.data(), sk, m.bytes.data() + 32));
            ok2 = ok2 && L01(secp256k1_ecdsa_signature_serialize_compact(dctx, sb2, &sig2)) && L01(secp256k1_ecdsa_s2c_opening_serialize(dctx, ob2, &op2));
            r.cmp();
            if (!ok || !ok2 || !mon_quiet_since(mk)) { r.violate("C15", "sign_failed", "secp256k1_anti_exfil_sign", "signing failed on valid arguments"); return; }
            if (memcmp(sb, sb2, 64) != 0) { r.violate("C15", "s2c_mismatch", "secp256k1_ecdsa_s2c_sign", "anti_exfil_sign and ecdsa_s2c_sign disagree for the same inputs"); return; }
            // opening consistency: signer_commit(msg, key, host_commit(rho)) == opening of the signature made with rho
            { uint8_t c[32]; L01(secp256k1_ecdsa_anti_exfil_host_commit(dctx, c, m.bytes.data() + 32));
              secp256k1_ecdsa_s2c_opening opc; uint8_t obc[33];
              int okc = L01(secp256k1_ecdsa_anti_exfil_signer_commit(dctx, &opc, m.bytes.data(), sk, c)) && L01(secp256k1_ecdsa_s2c_opening_serialize(dctx, obc, &opc));
              r.cmp();
              if (!okc || memcmp(obc, ob2, 33) != 0) { r.violate("C15", "opening_mismatch", "secp256k1_ecdsa_anti_exfil_signer_commit", "the opening committed to from the host commitment differs from the opening of the signature made with the revealed host randomness (msg " + hex(m.bytes.data(), 32) + ")"); return; }
              // the s2c opening verifies for exactly this datum
              int vc = L01(secp256k1_ecdsa_s2c_verify_commit(dctx, &sig2, m.bytes.data() + 32, &op2));
              uint8_t other[32]; memcpy(other, m.bytes.data() + 32, 32); other[7] ^= 0x10;
              int vo = L01(secp256k1_ecdsa_s2c_verify_commit(dctx, &sig2, other, &op2));
              r.cmp();
              if (!vc || vo) { r.violate("C15", "verify_commit", "secp256k1_ecdsa_s2c_verify_commit", std::string("verify_commit ") + (vc ? "accepted another datum" : "rejected the committed datum")); return; }
              // the host's hash commitment and the commitment check are the documented functions (reference model)
              { uint8_t mc[32]; ref::s2c_host_commit(m.bytes.data() + 32, mc); r.cmp();
                if (memcmp(mc, c, 32) != 0) { r.violate("C15", "host_commit_differs_from_model", "secp256k1_ecdsa_anti_exfil_host_commit", "host commitment is not the tagged hash of the randomness"); return; } }
              r.cmp();
              if (!ref::s2c_verify_commit(sb2, m.bytes.data() + 32, ob2)) { r.violate("C15", "verify_commit_model", "secp256k1_ecdsa_s2c_sign", "signature and opening do not satisfy r = x(R0 + H(R0 || datum) G) in the reference model"); return; }
              // single-bit mutations of datum, r and opening, positions spread over the whole width (taken from the message bytes so
              // that a run is a function of its plan): each must be rejected, by the library and by the model alike
              for (int k = 0; k < 8; k++) {
                  uint8_t d2[32], s2[64], o2[33]; memcpy(d2, m.bytes.data() + 32, 32); memcpy(s2, sb2, 64); memcpy(o2, ob2, 33);
                  unsigned sel = m.bytes[k] ^ m.bytes[32 + k];
                  const char *what;
                  if (k < 4) { unsigned bit = 64 * k + (sel & 63); d2[bit >> 3] ^= (uint8_t)(1u << (bit & 7)); what = "datum"; }
                  else if (k < 6) { unsigned bit = 128 * (k - 4) + (sel & 127); s2[bit >> 3] ^= (uint8_t)(1u << (bit & 7)); what = "r"; }
                  else { unsigned bit = k == 6 ? (sel & 7) : 8 + (sel % 256); o2[bit >> 3] ^= (uint8_t)(1u << (bit & 7)); what = "opening"; }
                  secp256k1_ecdsa_signature sg; secp256k1_ecdsa_s2c_opening oo;
                  MonMark mk2 = mon_mark();
                  int lp = L01(secp256k1_ecdsa_signature_parse_compact(dctx, &sg, s2)) && L01(secp256k1_ecdsa_s2c_opening_parse(dctx, &oo, o2));
                  int lv = lp && L01(secp256k1_ecdsa_s2c_verify_commit(dctx, &sg, d2, &oo));
                  bool r_in_range = ref::scalar_from_be_reduce(s2) == ref::U256::from_be(s2);
                  bool mv = r_in_range && ref::s2c_verify_commit(s2, d2, o2);
                  r.cmp();
                  if (!mon_quiet_since(mk2)) { r.violate("C15", "callback", "secp256k1_ecdsa_s2c_verify_commit", "callback on a mutated but parsed input"); return; }
                  if (lv) { r.violate("C15", "verify_commit", "secp256k1_ecdsa_s2c_verify_commit", std::string("verify_commit accepted a single-bit mutation of the ") + what + " (bit selector " + std::to_string(sel) + ", step " + std::to_string(k) + ")"); return; }
                  if ((lv != 0) != mv) { r.violate("C15", "verify_commit_model", "secp256k1_ecdsa_s2c_verify_commit", std::string("library and model disagree on a mutated ") + what); return; }
                  r.probe(std::string("mutated_") + what + "_rejected");
              } }
            // low-S, valid under the model
            r.cmp();
            if (!ref::ecdsa_verify(pkpt, m.bytes.data(), sb, sb + 32)) { r.violate("C15", "invalid_signature", "secp256k1_anti_exfil_sign", "signature is not a valid low-S ECDSA signature in the reference model (msg " + hex(m.bytes.data(), 32) + ")"); return; }
            dev_record(1, m.bytes, Bytes(sb, sb + 64));
            Msg o; o.kind = K_SIG; o.sid = m.sid; o.attempt = m.attempt; o.from = 1; o.to = 0; o.bytes.assign(sb, sb + 64);
            net.send(o);
        }
    }
    bool dev_produced(int type, const Bytes &in, const Bytes &out) const {
        Bytes c = canon(in);   // the device signs msg mod n: (0, x) and (n, x) are one request
        for (auto &d : dev) if (d.type == type && d.in == c && d.out == out) return true;
        return false;
    }
    // ---------------------------------------------------------------- host
    void host_persist() {
        Bytes b{(uint8_t)H.run}; b.insert(b.end(), H.msg, H.msg + 32); b.insert(b.end(), H.rho, H.rho + 32);
        H.disk.write("run", b); H.disk.sync();
    }
    void host_send_stage() {
        H.tries++;
        if (H.tries > 6) { host_finish(false); return; }
        Msg o; o.sid = H.run; o.attempt = H.tries; o.from = 0; o.to = 1;
        if (H.stage == 0) { o.kind = K_COMMIT_REQ; o.bytes.assign(H.msg, H.msg + 32); o.bytes.insert(o.bytes.end(), H.commit, H.commit + 32); }
        else { o.kind = K_SIGN_REQ; o.bytes.assign(H.msg, H.msg + 32); o.bytes.insert(o.bytes.end(), H.rho, H.rho + 32); }
        net.send(o);
        net.timer(0, 200, H.run * 1000 + H.stage * 100 + H.tries);
    }
    void host_start_run(int run, bool resume) {
        if (run >= nruns) { H.run = nruns; return; }
        H.run = run; H.stage = 0; H.tries = 0; H.opening.clear(); H.run_faulty = resume;
        if (!resume) {
            make_msg(msgclass[run], H.msg);
            if (run > 0 && reuse_rho[run]) { /* same host randomness as the previous run, by plan */ } else fresh32(H.rho);
            host_persist();    // rho durable before the commitment leaves the host
        }
        MonMark mk = mon_mark();
        int ok = L01(secp256k1_ecdsa_anti_exfil_host_commit(vctx, H.commit, H.rho));
        if (!ok || !mon_quiet_since(mk)) { r.violate("C15", "host_commit_failed", "secp256k1_ecdsa_anti_exfil_host_commit", "host_commit failed"); return; }
        all_rho.push_back(Bytes(H.rho, H.rho + 32));
        r.ev("host: run " + std::to_string(run) + (resume ? " (resumed)" : "") + " msg " + hex(H.msg, 32).substr(0, 16));
        host_send_stage();
    }
    void host_finish(bool ok) {
        done_runs++;
        if (ok) ok_runs++;
        r.ev("host: run " + std::to_string(H.run) + (ok ? " verified" : " given up"));
        if (!ok && !H.run_faulty && !net.fault_sids.count(H.run)) { r.cmp(); r.violate("C15", "liveness", "protocol", "a protocol run without any injected fault did not complete"); return; }
        if (!ok) r.probe("run_given_up_under_faults");
        host_start_run(H.run + 1, false);
    }
    void host_on(const Msg &m) {
        if (m.sid != H.run) return;   // stale message of an earlier run
        if (!m.intact() || m.copy) H.run_faulty = true;
        if (m.kind == K_OPENING && H.stage == 0) {
            secp256k1_ecdsa_s2c_opening op;
            bool ok = m.bytes.size() == 33 && L01(secp256k1_ecdsa_s2c_opening_parse(vctx, &op, m.bytes.data()));
            { ref::Pt q; bool mp = m.bytes.size() == 33 && ref::parse_pubkey(m.bytes.data(), 33, &q); r.cmp();
              if (ok != mp) { r.violate("C15", "parse", "secp256k1_ecdsa_s2c_opening_parse", "library and model disagree on a received opening " + hex(m.bytes)); return; } }
            if (!ok) return;   // wait for the retransmission timer
            H.opening = m.bytes; H.stage = 1; H.tries = 0;
            all_open.push_back(m.bytes);
            host_send_stage();
        } else if (m.kind == K_SIG && H.stage == 1) {
            if (m.bytes.size() != 64) return;
            secp256k1_ecdsa_signature sig; secp256k1_ecdsa_s2c_opening op;
            if (!L01(secp256k1_ecdsa_signature_parse_compact(vctx, &sig, m.bytes.data()))) return;
            if (!L01(secp256k1_ecdsa_s2c_opening_parse(vctx, &op, H.opening.data()))) return;
            MonMark mk = mon_mark();
            int v = L01(secp256k1_anti_exfil_host_verify(vctx, &sig, H.msg, &pk, H.rho, &op));
            int vc = L01(secp256k1_ecdsa_s2c_verify_commit(vctx, &sig, H.rho, &op));
            int ve = L01(secp256k1_ecdsa_verify(vctx, &sig, H.msg, &pk));
            bool me = ref::ecdsa_verify(pkpt, H.msg, m.bytes.data(), m.bytes.data() + 32);
            r.cmp();
            if (!mon_quiet_since(mk)) { r.violate("C15", "callback", "secp256k1_anti_exfil_host_verify", "callback on parsed arguments"); return; }
            if (v != (vc && ve)) { r.violate("C15", "host_verify_conjunction", "secp256k1_anti_exfil_host_verify", "host_verify = " + std::to_string(v) + " but verify_commit = " + std::to_string(vc) + " and ecdsa_verify = " + std::to_string(ve)); return; }
            if ((ve != 0) != me) { r.violate("C15", "ecdsa_verify", "secp256k1_ecdsa_verify", "library and model disagree on ECDSA verification"); return; }
            // provenance: accept exactly when the device produced this opening for (msg, commit(rho)) and this signature for (msg, rho)
            Bytes cin(H.msg, H.msg + 32); cin.insert(cin.end(), H.commit, H.commit + 32);
            Bytes sin(H.msg, H.msg + 32); sin.insert(sin.end(), H.rho, H.rho + 32);
            bool expect = dev_produced(0, cin, H.opening) && dev_produced(1, sin, m.bytes);
            r.cmp();
            if (expect && !v) { r.violate("C15", "completeness", "secp256k1_anti_exfil_host_verify", "host_verify rejected the device's genuine opening and signature for this (msg, rho): msg " + hex(H.msg, 32)); return; }
            if (!expect && v) { r.violate("C15", "soundness", "secp256k1_anti_exfil_host_verify", "host_verify accepted although the opening or the signature is not what the device produced for this (msg, rho)"); return; }
            // cross checks: another run's randomness or opening must not verify
            for (auto &orho : all_rho) if (memcmp(orho.data(), H.rho, 32) != 0) {
                int x = L01(secp256k1_ecdsa_s2c_verify_commit(vctx, &sig, orho.data(), &op)); r.cmp();
                if (x && vc) { r.violate("C15", "verify_commit", "secp256k1_ecdsa_s2c_verify_commit", "commitment verifies for two different data"); return; }
            }
            for (auto &oo : all_open) if (oo != H.opening) {
                secp256k1_ecdsa_s2c_opening o2;
                if (!L01(secp256k1_ecdsa_s2c_opening_parse(vctx, &o2, oo.data()))) continue;
                int x = L01(secp256k1_ecdsa_s2c_verify_commit(vctx, &sig, H.rho, &o2)); r.cmp();
                if (x && vc) { r.violate("C15", "verify_commit", "secp256k1_ecdsa_s2c_verify_commit", "commitment verifies for two different openings"); return; }
            }
            if (v) { r.probe("run_verified"); host_finish(true); }
            // otherwise: wait for the timer, which re-sends SIGN_REQ with the same rho
        }
    }
    void host_reboot() {
        H.disk.crash();
        Bytes b;
        if (!H.disk.read("run", &b) || b.size() != 65) { host_start_run(0, false); return; }
        int run = b[0];
        memcpy(H.msg, &b[1], 32); memcpy(H.rho, &b[33], 32);
        host_start_run(run, true);   // same rho: the device must produce the same opening again
    }
    void run() {
        inseed = (uint64_t)p.c("inseed");
        nruns = (int)std::max<int64_t>(1, std::min<int64_t>(8, p.c("nruns", 1)));
        msgclass.assign(nruns, 0); reuse_rho.assign(nruns, 0);
        for (const Op &o : p.ops) if (o.k == "run") { int i = (int)(((o.arg(0) % nruns) + nruns) % nruns); msgclass[i] = (int)(o.arg(1) % 5); reuse_rho[i] = (int)(o.arg(2) & 1); }
        hctx = L(secp256k1_context_create(SECP256K1_CONTEXT_NONE));
        dctx = L(secp256k1_context_create(SECP256K1_CONTEXT_NONE));
        vctx = p.c("host_static") ? secp256k1_context_static : hctx;
        if (p.c("host_static")) r.fault("host_uses_static_context");
        fresh32(sk); sk[0] &= 0x7f; sk[31] |= 1;
        if (p.c("keyclass") == 1) { memset(sk, 0, 32); sk[31] = 1; }
        if (p.c("keyclass") == 2) { ref::U256 v = ref::FN.neg(ref::U256(1)); v.to_be(sk); }
        if (!L01(secp256k1_ec_pubkey_create(hctx, &pk, sk))) { r.violate("C15", "setup", "secp256k1_ec_pubkey_create", "pubkey_create failed"); cleanup(); return; }
        pkpt = ref::mulG(ref::U256::from_be(sk));
        net.init(&p, &r, KN);
        net.on_deliver = [&](const Msg &m) { if (!r.ok) return; if (m.to == 1) dev_on(m); else host_on(m); };
        net.on_timer = [&](int, int tag) { if (!r.ok || H.run >= nruns) return; if (tag == H.run * 1000 + H.stage * 100 + H.tries) { if (H.tries > 1) H.run_faulty = H.run_faulty || false; host_send_stage(); } };
        net.on_crash = [&](int node) {
            if (node & 1) { L(secp256k1_context_destroy(dctx)); dctx = L(secp256k1_context_create(SECP256K1_CONTEXT_NONE)); H.run_faulty = true; r.ev("device restarted"); }
            else { H.run_faulty = true; if (H.run < nruns) host_reboot(); }
        };
        net.world_fault = [&](int f, Msg &m, int64_t, int64_t) -> bool {
            // third-party malleation of the ECDSA signature in transit: (r, s) -> (r, n - s)
            if (f != F_MALLEATE || m.kind != K_SIG || m.bytes.size() != 64) return false;
            ref::U256 sv = ref::U256::from_be(&m.bytes[32]);
            if (sv.is_zero() || !(sv < ref::FN.m)) return false;
            ref::FN.neg(sv).to_be(&m.bytes[32]);
            return true;
        };
        host_start_run(0, false);
        bool capped = false;
        while (r.ok && net.step(&capped)) {}
        if (capped) r.violate("C15", "step_cap", "run", "step cap hit");
        r.probes["runs_completed"] += ok_runs;
        cleanup();
    }
    void cleanup() {
        if (hctx) L(secp256k1_context_destroy(hctx));
        if (dctx) L(secp256k1_context_destroy(dctx));
        monitors_epilogue(r, r.expected_illegal, r.expected_error);
    }
};

}  // namespace

static Plan aex_generate(uint64_t seed, int tier) {
    Rng g(seed);
    Plan p;
    p.cfg["inseed"] = (int64_t)(g.next() >> 1);
    int nruns = (int)g.range(1, tier ? 6 : 4);
    p.cfg["nruns"] = nruns;
    p.cfg["keyclass"] = g.chance(1, 8) ? (int64_t)g.range(1, 2) : 0;
    p.cfg["host_static"] = g.chance(1, 3);
    for (int i = 0; i < nruns; i++) { Op o; o.k = "run"; o.a = {i, g.chance(1, 3) ? (int64_t)g.range(1, 4) : 0, g.chance(1, 4)}; p.ops.push_back(o); }
    int mode = (int)g.below(6);
    if (mode >= 1) {
        int nf = mode >= 4 ? (int)g.range(3, 8) : (int)g.range(1, 3);
        for (int i = 0; i < nf; i++) {
            Op o; o.k = "nf";
            int kind = (int)g.below(K_NK); bool to_dev = (kind == K_COMMIT_REQ || kind == K_SIGN_REQ);
            int f; uint64_t w = g.below(100);
            if (w < 12) f = NF_DROP; else if (w < 27) f = NF_DUP; else if (w < 50) f = NF_FLIP; else if (w < 58) f = NF_SET; else if (w < 64) f = NF_ZERO; else if (w < 69) f = NF_FF;
            else if (w < 75) f = NF_TRUNC; else if (w < 80) f = NF_EXT; else if (w < 86) f = NF_SPLICE; else if (w < 94) f = NF_MISDELIVER; else { f = F_MALLEATE; kind = K_SIG; to_dev = false; }
            o.a = {kind, (int64_t)g.below(nruns), (int64_t)g.range(1, 2), to_dev ? 0 : 1, to_dev ? 1 : 0, f, (int64_t)g.below(1 << 16), (int64_t)g.below(256)};
            p.ops.push_back(o);
        }
    }
    int nd = (int)g.range(0, 4);
    for (int i = 0; i < nd; i++) { Op o; o.k = "nd"; int kind = (int)g.below(K_NK); bool to_dev = (kind == K_COMMIT_REQ || kind == K_SIGN_REQ); o.a = {kind, (int64_t)g.below(nruns), (int64_t)g.range(1, 2), to_dev ? 0 : 1, to_dev ? 1 : 0, g.chance(1, 3) ? (int64_t)g.range(150, 700) : (int64_t)g.range(0, 30)}; p.ops.push_back(o); }
    if (mode == 2 || mode >= 4) { int nc = (int)g.range(1, 3); for (int i = 0; i < nc; i++) { Op o; o.k = "crash"; o.a = {(int64_t)g.below(2), (int64_t)g.range(1, 8 * nruns)}; p.ops.push_back(o); } }
    if (g.chance(1, 2)) { int ne = (int)g.range(1, 4); for (int i = 0; i < ne; i++) { Op o; o.k = "dctx"; o.a = {(int64_t)g.below(4 * nruns), (int64_t)g.below(4)}; p.ops.push_back(o); } }
    return p;
}
static void aex_execute(const Plan &p, const ExecOpts &, Result &r) { AexSim w(p, r); w.run(); }
static const World aex_world = {"aex", "C15", aex_generate, aex_execute};
SIM_REGISTER_WORLD(aex_world)

}  // namespace sim
