// World `nonce_api` (C13): histories of nonce_gen / nonce_gen_counter / partial_sign calls, each with
// an attached argument fault, over a small pool of secret-nonce slots, against a single-use model.
#include "../core.h"
#include "../seams.h"
#include "../ref/ref.h"
#include <cstdio>
#include <cstdlib>
extern "C" {
#include <secp256k1.h>
#include <secp256k1_extrakeys.h>
#include <secp256k1_musig.h>
}

namespace sim {
namespace {

// a 32-byte value that is not a secret key because it is too large: 2^256-1, exactly n, n+1
static void fill_over(uint8_t *b, int sel) {
    if (sel % 3 == 0) { memset(b, 0xff, 32); return; }
    ref::FN.m.to_be(b); if (sel % 3 == 2) b[31] += 1;
}
enum GenFault { G_NONE, G_ZERO_RAND, G_SK_ZERO, G_SK_OVER, G_ZERO_KEYOBJ, G_BAD_CACHE, G_KEYPAIR_SK_DAMAGED, G_NFAULTS };
enum SignFault { S_NONE, S_OTHER_KEY, S_NEG_KEY, S_ZERO_KEYPAIR, S_NULL_OUT, S_BAD_CACHE, S_BAD_SESSION, S_ZEROED_SLOT, S_NULL_KEYPAIR, S_NULL_CACHE, S_NULL_SESSION, S_STATIC_CTX, S_KEYPAIR_SK_ZEROED, S_KEYPAIR_SK_OVER, S_ENDO_KEY, S_ENDO2_KEY, S_NFAULTS };
const char *const GFN[] = {"ok", "zero_secrand", "seckey_zero", "seckey_overflow", "zeroed_key_object", "bad_cache", "keypair_secret_half_damaged"};
const char *const SFN[] = {"ok", "other_keypair", "negated_keypair", "zeroed_keypair", "null_output", "bad_cache", "bad_session", "zeroed_slot", "null_keypair", "null_cache", "null_session", "static_context", "keypair_secret_half_erased", "keypair_secret_half_overflows", "lambda_keypair", "lambda2_keypair"};

bool all_zero(const void *p, size_t n) { const uint8_t *b = (const uint8_t *)p; for (size_t i = 0; i < n; i++) if (b[i]) return false; return true; }

// watched secret nonce: is it still live while the illegal callback runs?
const secp256k1_musig_secnonce *g_watch = nullptr; int g_watch_live_at_cb = 0;
void watching_illegal_cb(const char *msg, void *data) {
    counting_illegal_cb(msg, data);
    if (g_watch && !all_zero(g_watch, sizeof *g_watch)) g_watch_live_at_cb++;
}

// header-derived: does the documentation of partial_sign exclude secp256k1_context_static?
bool partial_sign_not_static() {
    static int v = -1;
    if (v < 0) {
        v = 0;
        const char *p = getenv("SIM_NOTSTATIC");
        FILE *f = p ? fopen(p, "r") : NULL;
        if (!f) { fprintf(stderr, "SIM_NOTSTATIC list missing\n"); exit(3); }
        char name[200]; int flag;
        while (fscanf(f, "%199s %d", name, &flag) == 2) if (!strcmp(name, "secp256k1_musig_partial_sign")) v = flag;
        fclose(f);
    }
    return v == 1;
}

struct Slot {
    alignas(16) unsigned char raw[sizeof(secp256k1_musig_secnonce) + 16];
    size_t off = 0;   // the object needs no alignment: it lives at a byte offset 0..7
    secp256k1_musig_secnonce &snr() { return *(secp256k1_musig_secnonce *)(raw + off); }
    secp256k1_musig_pubnonce pn; bool have_pn = false;
    bool live = false; int key = -1; int gen_id = -1;   // model
};

}  // namespace

static Plan nonce_api_generate(uint64_t seed, int tier) {
    Rng g(seed);
    Plan p;
    p.cfg["inseed"] = (int64_t)(g.next() >> 1);
    p.cfg["slots"] = (int64_t)g.range(1, 3);
    p.cfg["rand_ctx"] = (int64_t)g.below(2);
    p.cfg["slot_off"] = g.chance(1, 2) ? (int64_t)g.below(512) : 0;
    int nops = (int)g.range(1, tier ? 16 : 12);
    bool faulty = g.chance(3, 4);
    for (int i = 0; i < nops; i++) {
        Op o;
        if (g.chance(2, 5)) {
            o.k = "gen";
            int f = (faulty && g.chance(1, 3)) ? (int)g.range(1, G_NFAULTS - 1) : G_NONE;
            o.a = {(int64_t)g.below(3), (int64_t)g.below(2), f, (int64_t)g.below(2), (int64_t)g.below(16), g.chance(1, 4) ? (int64_t)g.range(1, 2) : 0, g.chance(1, 2) ? (int64_t)g.below(8) : 0};
        } else {
            o.k = "sign";
            int f = (faulty && g.chance(1, 2)) ? (int)g.range(1, S_NFAULTS - 1) : S_NONE;
            o.a = {(int64_t)g.below(3), f, (int64_t)g.below(2), (int64_t)g.below(2)};
        }
        p.ops.push_back(o);
    }
    return p;
}

static void nonce_api_execute(const Plan &p, const ExecOpts &, Result &r) {
    uint64_t inseed = (uint64_t)p.c("inseed"), draw = 0;
    auto fresh32 = [&](uint8_t *out) { uint8_t b[16]; for (int i = 0; i < 8; i++) { b[i] = (uint8_t)(inseed >> (8 * i)); b[8 + i] = (uint8_t)(draw >> (8 * i)); } draw++; ref::sha256(b, 16, out); };
    secp256k1_context *ctx = L(secp256k1_context_create(SECP256K1_CONTEXT_NONE));
    if (p.c("rand_ctx")) { uint8_t s[32]; fresh32(s); (void)L(secp256k1_context_randomize(ctx, s)); }
    L(secp256k1_context_set_illegal_callback(ctx, watching_illegal_cb, NULL));
    int nslots = (int)std::max<int64_t>(1, std::min<int64_t>(3, p.c("slots", 1)));
    // keys 0,1 and key 2 = negation of key 0 (same x coordinate, other y)
    // keys 3, 4 = lambda * key 0 and lambda^2 * key 0 (lambda: the cube root of unity mod n): public keys (beta x, y), (beta^2 x, y) - same y
    uint8_t sk[5][32]; secp256k1_keypair kp[5]; secp256k1_pubkey pk[5];
    bool setup_ok = true;
    for (int i = 0; i < 2; i++) { fresh32(sk[i]); sk[i][0] &= 0x7f; sk[i][31] |= 1; }
    { ref::U256 v = ref::FN.neg(ref::U256::from_be(sk[0])); v.to_be(sk[2]); }
    { ref::U256 lam = ref::U256::from_be(ref::unhex("5363ad4cc05c30e0a5261c028812645a122e22ea20816678df02967c1b23bd72").data());
      ref::U256 v = ref::FN.mul(lam, ref::U256::from_be(sk[0])); v.to_be(sk[3]); ref::FN.mul(lam, v).to_be(sk[4]); }
    for (int i = 0; i < 5; i++) { setup_ok = setup_ok && L01(secp256k1_keypair_create(ctx, &kp[i], sk[i])); setup_ok = setup_ok && L01(secp256k1_keypair_pub(ctx, &pk[i], &kp[i])); }
    const secp256k1_pubkey *pks[2] = {&pk[0], &pk[1]};
    secp256k1_musig_keyagg_cache cache, bad_cache;
    memset(&bad_cache, 0, sizeof bad_cache);
    setup_ok = setup_ok && L01(secp256k1_musig_pubkey_agg(ctx, NULL, &cache, pks, 2));
    // two sessions with different aggregate nonces and messages
    secp256k1_musig_session sess[2], bad_sess; memset(&bad_sess, 0, sizeof bad_sess);
    uint8_t msg[2][32];
    for (int s = 0; s < 2 && setup_ok; s++) {
        secp256k1_musig_secnonce tsn[2]; secp256k1_musig_pubnonce tpn[2]; const secp256k1_musig_pubnonce *pp[2];
        for (int i = 0; i < 2; i++) { uint8_t sr[32]; fresh32(sr); setup_ok = setup_ok && L01(secp256k1_musig_nonce_gen(ctx, &tsn[i], &tpn[i], sr, sk[i], &pk[i], NULL, NULL, NULL)); pp[i] = &tpn[i]; }
        secp256k1_musig_aggnonce an;
        setup_ok = setup_ok && L01(secp256k1_musig_nonce_agg(ctx, &an, pp, 2));
        fresh32(msg[s]);
        setup_ok = setup_ok && L01(secp256k1_musig_nonce_process(ctx, &sess[s], &an, msg[s], &cache, NULL));
    }
    if (!setup_ok || g_mon.illegal_count) { r.violate("C13", "setup", "setup", "setup of keys / cache / sessions failed: " + g_mon.last_illegal); L(secp256k1_context_destroy(ctx)); monitors_epilogue(r, 0, 0); return; }

    Slot slots[3];
    for (int i = 0; i < 3; i++) { slots[i].off = (size_t)((p.c("slot_off") >> (3 * i)) & 7); memset(slots[i].raw, 0, sizeof slots[i].raw); }
    int gen_counter = 0;
    uint64_t nonrep = 1;
    struct Sig { int gen_id; int sess; uint8_t s[32]; int opno; };
    std::vector<Sig> sigs;
    std::string prev_cell;
    int opno = 0;
    for (const Op &o : p.ops) {
        if (!r.ok) break;
        opno++;
        if (o.k == "gen") {
            Slot &s = slots[(size_t)(((o.arg(0) % nslots) + nslots) % nslots)];
            int api = (int)(o.arg(1) & 1), f = (int)(((o.arg(2) % G_NFAULTS) + G_NFAULTS) % G_NFAULTS), key = (int)(o.arg(3) & 1), mask = (int)(o.arg(4) & 15);
            if (api == 1 && f == G_ZERO_RAND) f = G_NONE;          // no randomness argument in the counter variant
            if (api == 1 && (f == G_SK_ZERO || f == G_SK_OVER)) f = G_ZERO_KEYOBJ;  // the key comes from the keypair object
            std::string cell = std::string("gen") + (api ? "_counter" : "") + ":" + (s.live ? "live" : "zero") + ":" + GFN[f] + ((api == 0 && o.arg(5) % 3) ? (o.arg(5) % 3 == 1 ? "+alias_extra" : "+alias_msg") : "");
            // buffers need no alignment: place the randomness at a byte offset 0..7 inside a larger area
            alignas(16) uint8_t rand_area[48]; uint8_t *secrand = rand_area + (size_t)(o.arg(6) & 7); fresh32(secrand);
            if (f == G_ZERO_RAND) memset(secrand, 0, 32);
            uint8_t skarg[32]; memcpy(skarg, sk[key], 32);
            if (f == G_SK_ZERO) memset(skarg, 0, 32);
            if (f == G_SK_OVER) fill_over(skarg, opno + mask);
            secp256k1_pubkey pkarg = pk[key]; secp256k1_keypair kparg = kp[key];
            if (f == G_ZERO_KEYOBJ) { memset(&pkarg, 0, sizeof pkarg); memset(&kparg, 0, sizeof kparg); }
            if (f == G_KEYPAIR_SK_DAMAGED) {
                // the keypair object was damaged where it was kept: the secret half reads back erased, the public half is intact
                if (api == 0) f = G_SK_OVER; else { if (mask & 1) fill_over(kparg.data, opno + (mask >> 1)); else memset(kparg.data, 0x00, 32); }
                if (api == 0) fill_over(skarg, opno + mask);
            }
            const secp256k1_musig_keyagg_cache *carg = f == G_BAD_CACHE ? &bad_cache : ((mask & 1) ? &cache : NULL);
            const unsigned char *marg = (mask & 2) ? msg[0] : NULL;
            uint8_t extra[32]; fresh32(extra);
            const unsigned char *earg = (mask & 4) ? extra : NULL;
            // nothing forbids the caller from handing the same 32 bytes in as randomness and as extra input / message
            int alias = (int)(o.arg(5) % 3);
            if (api == 0 && alias == 1) earg = secrand;
            if (api == 0 && alias == 2 && f != G_ZERO_RAND) marg = secrand;
            const unsigned char *skp = (api == 0 && (mask & 8) && f != G_SK_ZERO && f != G_SK_OVER) ? NULL : skarg;
            secp256k1_musig_pubnonce pn; memset(&pn, 0x5c, sizeof pn);
            int64_t ill0 = g_mon.illegal_count;
            int ret = api == 0 ? L01(secp256k1_musig_nonce_gen(ctx, &s.snr(), &pn, secrand, skp, &pkarg, marg, carg, earg))
                               : L01(secp256k1_musig_nonce_gen_counter(ctx, &s.snr(), &pn, nonrep++, &kparg, marg, carg, earg));
            int64_t ill = g_mon.illegal_count - ill0;
            bool expect = f == G_NONE;
            if (f != G_NONE) { r.fault(std::string("gen.") + GFN[f]); r.expected_illegal += ill; }
            r.cmp();
            r.ev(cell + " -> " + std::to_string(ret));
            if (expect && ill) { r.violate("C13", "callback", api ? "secp256k1_musig_nonce_gen_counter" : "secp256k1_musig_nonce_gen", "illegal callback on valid arguments: " + g_mon.last_illegal); break; }
            if ((ret != 0) != expect) { r.violate("C13", "gen_result", api ? "secp256k1_musig_nonce_gen_counter" : "secp256k1_musig_nonce_gen", cell + ": returned " + std::to_string(ret) + ", model expects " + std::to_string(expect)); break; }
            if (!ret && !all_zero(&s.snr(), sizeof(secp256k1_musig_secnonce))) { r.violate("C13", "secnonce_live_after_failed_gen", api ? "secp256k1_musig_nonce_gen_counter" : "secp256k1_musig_nonce_gen", cell + ": secret nonce object not zeroed although generation failed"); break; }
            if (ret && all_zero(&s.snr(), sizeof(secp256k1_musig_secnonce))) { r.violate("C13", "gen_result", "secp256k1_musig_nonce_gen", cell + ": success but the secret nonce object is all-zero"); break; }
            if (ret && api == 0 && !all_zero(secrand, 32)) { r.violate("C13", "secrand_not_wiped", "secp256k1_musig_nonce_gen", cell + ": session_secrand32 not zeroed after success"); break; }
            s.live = ret != 0; s.key = ret ? key : -1; s.gen_id = ret ? gen_counter++ : -1; s.have_pn = ret != 0; if (ret) s.pn = pn;
            r.cover.insert("cell:" + cell);
            if (!prev_cell.empty()) r.cover.insert("pair:" + prev_cell + ">" + cell);
            prev_cell = cell;
        } else if (o.k == "sign") {
            Slot &s = slots[(size_t)(((o.arg(0) % nslots) + nslots) % nslots)];
            int f = (int)(((o.arg(1) % S_NFAULTS) + S_NFAULTS) % S_NFAULTS), si = (int)(o.arg(2) & 1);
            if (f == S_ZEROED_SLOT) { memset(&s.snr(), 0, sizeof(secp256k1_musig_secnonce)); s.live = false; }   // a never-initialised object
            std::string cell = std::string("sign:") + (s.live ? "live" : "zero") + ":" + SFN[f];
            int key = s.live ? s.key : (int)(o.arg(3) & 1);
            int kidx = key;
            if (f == S_OTHER_KEY) kidx = 1 - key;
            if (f == S_NEG_KEY) kidx = key == 0 ? 2 : 1 - key;   // only key 0 has a negated twin in the pool
            if (f == S_ENDO_KEY || f == S_ENDO2_KEY) kidx = key == 0 ? (f == S_ENDO_KEY ? 3 : 4) : 1 - key;   // likewise its endomorphism siblings
            secp256k1_keypair kparg = kp[kidx];
            if (f == S_ZERO_KEYPAIR) memset(&kparg, 0, sizeof kparg);
            // the keypair was damaged where it was kept: the public half is intact (and still the key the nonce is bound to), the secret half is not a key
            if (f == S_KEYPAIR_SK_ZEROED) memset(kparg.data, 0, 32);
            if (f == S_KEYPAIR_SK_OVER) fill_over(kparg.data, opno);
            secp256k1_musig_partial_sig out, out0; memset(&out, 0x77, sizeof out); out0 = out;
            secp256k1_musig_partial_sig *volatile outp = f == S_NULL_OUT ? NULL : &out;
            const secp256k1_musig_keyagg_cache *volatile carg = f == S_BAD_CACHE ? &bad_cache : (f == S_NULL_CACHE ? NULL : &cache);
            const secp256k1_musig_session *volatile sarg = f == S_BAD_SESSION ? &bad_sess : (f == S_NULL_SESSION ? NULL : &sess[si]);
            const secp256k1_keypair *volatile kpp = f == S_NULL_KEYPAIR ? NULL : &kparg;
            // observation at callback time (probe only: the header defines behaviour for callbacks that return or abort the process)
            g_watch = &s.snr(); g_watch_live_at_cb = 0;
            bool was_live = s.live;
            int64_t ill0 = g_mon.illegal_count;
            // the static context: a valid argument unless the header of the tree under test says otherwise
            const secp256k1_context *cx = f == S_STATIC_CTX ? secp256k1_context_static : ctx;
            int ret = L01(secp256k1_musig_partial_sign(cx, outp, &s.snr(), kpp, carg, sarg));
            g_watch = nullptr;
            if (was_live && g_watch_live_at_cb) r.probe("secnonce_still_live_inside_illegal_callback");
            int64_t ill = g_mon.illegal_count - ill0;
            bool expect = was_live && (f == S_NONE || (f == S_STATIC_CTX && !partial_sign_not_static()));
            if (f == S_STATIC_CTX && !partial_sign_not_static()) { r.expected_illegal += 0; }
            if (f != S_NONE) r.fault(std::string("sign.") + SFN[f]);
            if (!expect) r.expected_illegal += ill;
            r.cmp();
            r.ev(cell + " -> " + std::to_string(ret));
            if (!was_live) r.probe("sign_on_dead_nonce");
            if (!all_zero(&s.snr(), sizeof(secp256k1_musig_secnonce))) { r.violate("C13", "secnonce_not_wiped", "secp256k1_musig_partial_sign", cell + ": secret nonce object not all-zero after the call returned " + std::to_string(ret)); break; }
            if (expect && ill) { r.violate("C13", "callback", "secp256k1_musig_partial_sign", "illegal callback on a valid signing call: " + g_mon.last_illegal); break; }
            if ((ret != 0) != expect) { r.violate("C13", expect ? "sign_failed" : (was_live ? "signed_despite_invalid_argument" : "signed_with_dead_nonce"), "secp256k1_musig_partial_sign", cell + ": returned " + std::to_string(ret) + ", the single-use model expects " + std::to_string(expect)); break; }
            if (!ret && memcmp(&out, &out0, sizeof out) != 0 && s.have_pn && f != S_ZERO_KEYPAIR && f != S_NULL_KEYPAIR) {
                // a failing call wrote something: it must not be a valid signature for this nonce
                int64_t i1 = g_mon.illegal_count;
                int v = L(secp256k1_musig_partial_sig_verify(ctx, &out, &s.pn, &pk[kidx], &cache, &sess[si]));
                r.expected_illegal += g_mon.illegal_count - i1;
                if (v) { r.violate("C13", "signature_from_failed_call", "secp256k1_musig_partial_sign", cell + ": the call failed but left a valid partial signature in the output object"); break; }
            }
            if (ret) {
                int v = L01(secp256k1_musig_partial_sig_verify(ctx, &out, &s.pn, &pk[key], &cache, &sess[si]));
                r.cmp();
                if (!v) { r.violate("C13", "sign_result", "secp256k1_musig_partial_sign", cell + ": signature does not verify for the nonce's own key and public nonce"); break; }
                Sig sg; sg.gen_id = s.gen_id; sg.sess = si; sg.opno = opno;
                L01(secp256k1_musig_partial_sig_serialize(ctx, sg.s, &out));
                sigs.push_back(sg);
            }
            s.live = false;
            r.cover.insert("cell:" + cell);
            if (!prev_cell.empty()) r.cover.insert("pair:" + prev_cell + ">" + cell);
            prev_cell = cell;
        }
    }
    // history-level: each generated nonce signed at most once
    for (size_t i = 0; i < sigs.size() && r.ok; i++)
        for (size_t j = i + 1; j < sigs.size() && r.ok; j++) {
            r.cmp();
            if (sigs[i].gen_id == sigs[j].gen_id)
                r.violate("C13", "nonce_reuse", "secp256k1_musig_partial_sign", "one generated secret nonce produced two partial signatures (ops #" + std::to_string(sigs[i].opno) + " and #" + std::to_string(sigs[j].opno) + ")");
        }
    L(secp256k1_context_destroy(ctx));
    monitors_epilogue(r, r.expected_illegal, r.expected_error);
}

static const World nonce_api_world = {"nonce_api", "C13", nonce_api_generate, nonce_api_execute};
SIM_REGISTER_WORLD(nonce_api_world)

}  // namespace sim
