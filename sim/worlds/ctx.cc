// World `ctx` (C20): results depend only on arguments, not on context history or threads.
#include "probes.h"
#include "../fiber.h"
#include <cstdlib>
#include <cstdio>
#include <fstream>
#include <sstream>

namespace sim {
namespace {

const int NSLOTS = 4;

// ------------------------------------------------------------------ header-derived "not static" set
std::map<std::string, int> &notstatic_map() {
    static std::map<std::string, int> m;
    static bool loaded = false;
    if (!loaded) {
        loaded = true;
        const char *p = getenv("SIM_NOTSTATIC");
        std::ifstream f(p ? p : "");
        if (!f) { fprintf(stderr, "SIM_NOTSTATIC list missing; the driver writes it from /repo/include\n"); exit(3); }
        std::string name; int v;
        while (f >> name >> v) m[name] = v;
    }
    return m;
}

void bad_compression(uint32_t *, const unsigned char *, size_t) {}   // deliberately wrong: leaves the state untouched
int g_last_tag = -1;
int g_tags[16];
void tag_illegal_cb(const char *msg, void *data) {
    g_mon.illegal_count++;
    { int k = g_mon.cur_task + 1; if (k >= 0 && k < 40) g_mon.illegal_by_task[k]++; }
    g_mon.last_illegal = msg ? msg : "";
    g_last_tag = data ? *(int *)data : -1;
}

struct Slot {
    secp256k1_context *ctx = nullptr;
    void *mem = nullptr;       // caller-provided memory (preallocated variants)
    bool prealloc = false;
    bool comp = false;         // model: compression function replaced
    int tag = -1;              // model: illegal callback tag (-1 default callback)
};

uint64_t snapshot(const secp256k1_context *ctx, size_t ctxsize, const Fixtures &fx, const std::vector<Region> &lib) {
    uint64_t h = fnv1a(ctx, ctxsize);
    h = fnv1a(&fx, sizeof fx, h);
    for (auto &r : lib) h = fnv1a(r.lo, r.hi - r.lo, h);
    return h;
}

}  // namespace

// ================================================================== generate
static Plan ctx_generate(uint64_t seed, int tier) {
    Rng g(seed);
    Plan p;
    const int NP = (int)probe_table().size();
    p.cfg["inseed"] = (int64_t)(g.next() >> 1);
    // ---- phase 1: lifecycle history
    int nlc = (int)g.range(5, tier ? 40 : 24);
    // swarm: each run enables a random subset of op kinds
    std::vector<int> kinds;
    for (int k = 0; k < 13; k++) if (g.chance(3, 4)) kinds.push_back(k);
    if (kinds.empty()) kinds.push_back(0);
    for (int i = 0; i < nlc; i++) {
        int k = kinds[g.below(kinds.size())];
        Op o;
        int64_t s = (int64_t)g.below(NSLOTS), s2 = (int64_t)g.below(NSLOTS);
        switch (k) {
            case 0: o.k = "lc.create"; o.a = {s}; break;
            case 1: o.k = "lc.pcreate"; o.a = {s}; break;
            case 2: o.k = "lc.clone"; o.a = {s, s2}; break;
            case 3: o.k = "lc.pclone"; o.a = {s, s2}; break;
            case 4: o.k = "lc.rand"; o.a = {s}; o.x = g.bytes(32); if (g.chance(1, 8)) memset(o.x.data(), g.chance(1, 2) ? 0 : 0xff, 32); break;
            case 5: o.k = "lc.randnull"; o.a = {s}; break;
            case 6: o.k = "lc.setcomp"; o.a = {s}; break;
            case 7: o.k = "lc.resetcomp"; o.a = {s}; break;
            case 8: o.k = "lc.setcb"; o.a = {s, (int64_t)g.below(8)}; break;
            case 9: o.k = "lc.destroy"; o.a = {s}; break;
            case 10: o.k = "lc.oom"; o.a = {(int64_t)g.below(2), s, s2}; break;
            case 12: o.k = "lc.badcomp"; o.a = {s}; break;
            default: o.k = "lc.probe"; o.a = {s, (int64_t)g.below(NP)}; break;
        }
        p.ops.push_back(o);
        if (k != 11 && g.chance(1, 2)) { Op q; q.k = "lc.probe"; q.a = {s, (int64_t)g.below(NP)}; p.ops.push_back(q); }
    }
    // ---- phase 2: static context (and a byte copy of it)
    int nst = (int)g.range(2, tier ? 12 : 6);
    for (int i = 0; i < nst; i++) { Op o; o.k = "st.probe"; o.a = {(int64_t)g.below(NP), (int64_t)g.below(2)}; p.ops.push_back(o); }
    // ---- phase 3: shared context under a seeded schedule
    int ntasks = (int)g.range(2, g.chance(1, 4) ? 16 : 5);
    int rounds = (int)g.range(1, 3);
    p.cfg["ntasks"] = ntasks; p.cfg["rounds"] = rounds; p.cfg["first"] = (int64_t)g.below(ntasks);
    if (g.chance(1, 2)) { Op o; o.k = "sh.rand"; o.x = g.bytes(32); p.ops.push_back(o); }
    if (g.chance(1, 2)) { Op o; o.k = "sh.setcomp"; p.ops.push_back(o); }
    for (int r = 0; r < rounds; r++) {
        for (int t = 0; t < ntasks; t++) {
            if (r > 0 && g.chance(1, 3)) continue;
            Op o; o.k = "task"; o.a = {t, r, (int64_t)g.below(NP)}; p.ops.push_back(o);
        }
        int npre = g.chance(1, 3) ? (int)g.range(1, 3) : (int)g.range(0, 40);
        for (int i = 0; i < npre; i++) {
            Op o; o.k = "pre";
            o.a = {r, (int64_t)g.below(ntasks), (int64_t)g.below(g.chance(1, 2) ? 4 : 40), (int64_t)g.below(1000000), (int64_t)g.below(ntasks)};
            p.ops.push_back(o);
        }
        if (g.chance(1, 2)) { Op o; o.k = "writer"; o.a = {r, (int64_t)g.below(5)}; o.x = g.bytes(32); p.ops.push_back(o); }
    }
    return p;
}

// ================================================================== execute
static void ctx_execute(const Plan &p, const ExecOpts &, Result &r) {
    const auto &tab = probe_table();
    const int NP = (int)tab.size();
    g_seamc = SeamCounters();
    auto &ns = notstatic_map();

    // the library image must stay byte-identical for the whole run (no mutable global state)
    std::vector<Region> libimg;
    collect_library_writable(libimg);
    g_sched.lib_regions = libimg; g_sched.global_hits = 0;
    uint64_t libhash0 = 0; for (auto &x : libimg) libhash0 = fnv1a(x.lo, x.hi - x.lo, libhash0);
    // golden context: malloc-created, never randomized
    int64_t m0 = g_mon.mallocs_in_api;
    secp256k1_context *gold = L(secp256k1_context_create(SECP256K1_CONTEXT_NONE));
    if (g_mon.mallocs_in_api - m0 > 1) r.violate("C20", "alloc_count", "secp256k1_context_create", "context_create performed " + std::to_string(g_mon.mallocs_in_api - m0) + " allocations");
    static Fixtures fx;   // large; one at a time
    if (!gold || !build_fixtures(gold, (uint64_t)p.c("inseed"), fx)) {
        r.violate("C20", "fixture", "build_fixtures", "a documented-valid call failed while building fixtures (illegal cb: " + g_mon.last_illegal + ")");
        if (gold) L(secp256k1_context_destroy(gold));
        monitors_epilogue(r, r.expected_illegal, r.expected_error);
        return;
    }
    const size_t ctxsize = L(secp256k1_context_preallocated_size(SECP256K1_CONTEXT_NONE));
    std::map<int, ProbeRun> golden;
    auto gold_run = [&](int pi) -> const ProbeRun & {
        auto it = golden.find(pi);
        if (it != golden.end()) return it->second;
        ProbeRun pr; ProbeEnv e{gold, &fx, &pr, false};
        tab[pi].fn(e);
        r.expected_illegal += misuse_callbacks(pr);
        return golden[pi] = pr;
    };
    auto check_vs_gold = [&](int pi, const ProbeRun &got, const std::string &vclass, const std::string &what) {
        std::string diff;
        r.cmp();
        if (!same_run(gold_run(pi), got, &diff))
            r.violate("C20", vclass, std::string("probe=") + tab[pi].name, what + ": " + diff);
    };

    // ---------------------------------------------------------------- phase 1: lifecycle
    Slot slots[NSLOTS];
    auto destroy_slot = [&](Slot &s) {
        if (!s.ctx) return;
        int64_t f0 = g_mon.frees_in_api;
        if (s.prealloc) { L(secp256k1_context_preallocated_destroy(s.ctx)); free(s.mem); }
        else { L(secp256k1_context_destroy(s.ctx)); if (g_mon.frees_in_api - f0 != 1) r.violate("C20", "alloc_count", "secp256k1_context_destroy", "context_destroy did not free exactly one block"); }
        s = Slot();
    };
    auto check_comp_and_cb = [&](Slot &s, int si) {
        // replaced compression function is (still) in use iff the model says so
        unsigned char h[32];
        int64_t c0 = g_seamc.compress_calls;
        int ok = L01(secp256k1_tagged_sha256(s.ctx, h, (const unsigned char *)"x", 1, (const unsigned char *)"y", 1));
        bool used = g_seamc.compress_calls > c0;
        r.cmp();
        if (!ok || used != s.comp)
            r.violate("C20", "lifecycle_state", "compression_function", "slot " + std::to_string(si) + ": replaced compression function " + (s.comp ? "expected but not called" : "called but not expected"));
        // illegal callback and its data pointer follow the context (deliberate misuse: NULL output)
        g_last_tag = -2;
        int64_t i0 = g_mon.illegal_count;
        secp256k1_pubkey *volatile nullpk = NULL;
        (void)L(secp256k1_ec_pubkey_create(s.ctx, nullpk, fx.sk[0]));
        int64_t d = g_mon.illegal_count - i0;
        r.expected_illegal += d;
        r.cmp();
        int want = s.tag < 0 ? -2 : s.tag;   // default callback does not touch g_last_tag
        if (d != 1 || g_last_tag != want)
            r.violate("C20", "lifecycle_state", "illegal_callback", "slot " + std::to_string(si) + ": callback count " + std::to_string(d) + " tag " + std::to_string(g_last_tag) + " expected " + std::to_string(want));
    };
    for (const Op &o : p.ops) {
        if (!r.ok) break;
        if (o.k.compare(0, 3, "lc.") != 0) continue;
        int si = (int)(((o.k == "lc.oom" ? o.arg(1) : o.arg(0)) % NSLOTS + NSLOTS) % NSLOTS);
        Slot &s = slots[si];
        int64_t mm = g_mon.mallocs_in_api;
        if (o.k == "lc.oom") {
            // allocation failure inside create / clone: the error callback must be reached exactly once,
            // before any use of the NULL pointer; the callback aborts the simulated node (longjmp).
            int kind = (int)(o.arg(0) & 1);
            int sj = (int)((o.arg(2) % NSLOTS + NSLOTS) % NSLOTS);
            if (kind == 1 && !slots[sj].ctx) continue;
            jmp_buf jb;
            int64_t e0 = g_mon.error_count;
            volatile int returned = 0;
            g_mon.arm_fail(0);
            g_mon.abort_target = &jb;
            if (setjmp(jb) == 0) {
                secp256k1_context *c = kind == 0 ? L(secp256k1_context_create(SECP256K1_CONTEXT_NONE)) : L(secp256k1_context_clone(slots[sj].ctx));
                returned = 1;
                if (c) { L(secp256k1_context_destroy(c)); }
            }
            g_mon.abort_target = nullptr; g_mon.disarm_fail();
            int64_t d = g_mon.error_count - e0;
            r.expected_error += d;
            r.fault("alloc_fail"); r.cmp();
            r.ev(std::string("oom ") + (kind ? "clone" : "create") + " -> error callback x" + std::to_string(d));
            if (g_mon.fails_injected && (d != 1 || returned))
                r.violate("C20", "oom", kind ? "secp256k1_context_clone" : "secp256k1_context_create", "allocation failure: error callback fired " + std::to_string(d) + " times, call " + (returned ? "returned" : "aborted"));
            continue;
        }
        if (o.k == "lc.create") {
            destroy_slot(s); mm = g_mon.mallocs_in_api;
            s.ctx = L(secp256k1_context_create(SECP256K1_CONTEXT_NONE));
            if (g_mon.mallocs_in_api - mm > 1) r.violate("C20", "alloc_count", "secp256k1_context_create", "context_create performed " + std::to_string(g_mon.mallocs_in_api - mm) + " allocations");
            r.ev("create " + std::to_string(si)); r.fault("lc.create");
        } else if (o.k == "lc.pcreate") {
            destroy_slot(s); mm = g_mon.mallocs_in_api;
            s.mem = malloc(ctxsize); s.prealloc = true;
            s.ctx = L(secp256k1_context_preallocated_create(s.mem, SECP256K1_CONTEXT_NONE));
            if (g_mon.mallocs_in_api - mm != 0) r.violate("C20", "alloc_count", "secp256k1_context_preallocated_create", "preallocated create allocated");
            r.ev("pcreate " + std::to_string(si)); r.fault("lc.pcreate");
        } else if (o.k == "lc.clone" || o.k == "lc.pclone") {
            int sj = (int)((o.arg(1) % NSLOTS + NSLOTS) % NSLOTS);
            if (sj == si || !slots[sj].ctx) continue;
            destroy_slot(s); mm = g_mon.mallocs_in_api;
            Slot &src = slots[sj];
            if (o.k == "lc.clone") {
                s.ctx = L(secp256k1_context_clone(src.ctx));
                if (g_mon.mallocs_in_api - mm > 1) r.violate("C20", "alloc_count", "secp256k1_context_clone", "context_clone performed " + std::to_string(g_mon.mallocs_in_api - mm) + " allocations");
            } else {
                size_t cs = L(secp256k1_context_preallocated_clone_size(src.ctx));
                s.mem = malloc(cs); s.prealloc = true;
                s.ctx = L(secp256k1_context_preallocated_clone(src.ctx, s.mem));
                if (g_mon.mallocs_in_api - mm != 0) r.violate("C20", "alloc_count", "secp256k1_context_preallocated_clone", "preallocated clone allocated");
            }
            s.comp = src.comp; s.tag = src.tag;
            r.ev(o.k.substr(3) + " " + std::to_string(si) + "<-" + std::to_string(sj)); r.fault(o.k);
            if (s.ctx) check_comp_and_cb(s, si);
        } else if (!s.ctx) {
            continue;   // op on an empty slot: nothing to do
        } else if (o.k == "lc.rand" || o.k == "lc.randnull") {
            unsigned char seed[32]; memset(seed, 0, 32);
            if (o.k == "lc.rand" && o.x.size() >= 32) memcpy(seed, o.x.data(), 32);
            int ok = L01(secp256k1_context_randomize(s.ctx, o.k == "lc.rand" ? seed : NULL));
            if (g_mon.mallocs_in_api - mm != 0) r.violate("C20", "alloc_count", "secp256k1_context_randomize", "randomize allocated");
            r.ev(o.k.substr(3) + " " + std::to_string(si) + " -> " + std::to_string(ok)); r.fault(o.k);
            if (!ok) r.violate("C20", "lifecycle_state", "secp256k1_context_randomize", "randomize failed on a proper context");
            // blinding invariant on edge scalars
            ProbeRun pr; ProbeEnv e{s.ctx, &fx, &pr, false};
            tab[NP - 1].fn(e);
            check_vs_gold(NP - 1, pr, "history_divergence", "edge-scalar public keys differ after randomize");
        } else if (o.k == "lc.setcomp") {
            L(secp256k1_context_set_sha256_compression(s.ctx, probe_compression)); s.comp = true;
            r.ev("setcomp " + std::to_string(si)); r.fault("lc.setcomp");
            check_comp_and_cb(s, si);
        } else if (o.k == "lc.badcomp") {
            // an incorrect compression function is offered: the library may refuse it (illegal callback) - then the
            // context must be exactly as before; if it accepts it, that is outside the property (no verdict, slot dropped)
            int64_t i0 = g_mon.illegal_count;
            L(secp256k1_context_set_sha256_compression(s.ctx, bad_compression));
            int64_t d = g_mon.illegal_count - i0;
            r.expected_illegal += d;
            r.ev("badcomp " + std::to_string(si) + " -> callbacks " + std::to_string(d)); r.fault("lc.badcomp");
            if (d > 0) { r.probe("wrong_compression_refused"); g_last_tag = -2; check_comp_and_cb(s, si); }
            else { r.probe("wrong_compression_accepted"); destroy_slot(s); }
        } else if (o.k == "lc.resetcomp") {
            L(secp256k1_context_set_sha256_compression(s.ctx, NULL)); s.comp = false;
            r.ev("resetcomp " + std::to_string(si)); r.fault("lc.resetcomp");
            check_comp_and_cb(s, si);
        } else if (o.k == "lc.setcb") {
            int t = (int)(o.arg(1) & 7);
            g_tags[t] = t;
            L(secp256k1_context_set_illegal_callback(s.ctx, tag_illegal_cb, &g_tags[t])); s.tag = t;
            r.ev("setcb " + std::to_string(si) + " tag " + std::to_string(t)); r.fault("lc.setcb");
            check_comp_and_cb(s, si);
        } else if (o.k == "lc.destroy") {
            destroy_slot(s);
            r.ev("destroy " + std::to_string(si)); r.fault("lc.destroy");
        } else if (o.k == "lc.probe") {
            int pi = (int)((o.arg(1) % NP + NP) % NP);
            ProbeRun pr; ProbeEnv e{s.ctx, &fx, &pr, false};
            int64_t i0 = g_mon.illegal_count;
            tab[pi].fn(e);
            r.expected_illegal += misuse_callbacks(pr);
            if (g_mon.illegal_count - i0 != misuse_callbacks(pr)) r.violate("C20", "history_divergence", std::string("probe=") + tab[pi].name, "illegal callback on a proper context: " + g_mon.last_illegal);
            r.ev("probe " + std::to_string(si) + " " + tab[pi].name + " " + run_digest(pr));
            check_vs_gold(pi, pr, "history_divergence", "output differs from the golden context (slot " + std::to_string(si) + (s.prealloc ? " prealloc" : " malloc") + (s.comp ? " comp" : "") + ")");
        }
    }
    for (auto &s : slots) destroy_slot(s);

    // ---------------------------------------------------------------- phase 2: static context
    if (r.ok) {
        void *copy = malloc(ctxsize);
        memcpy(copy, (const void *)secp256k1_context_static, ctxsize);
        for (const Op &o : p.ops) {
            if (!r.ok) break;
            if (o.k != "st.probe") continue;
            int pi = (int)((o.arg(0) % NP + NP) % NP);
            bool usecopy = o.arg(1) & 1;
            const secp256k1_context *sc = usecopy ? (const secp256k1_context *)copy : secp256k1_context_static;
            ProbeRun pr; ProbeEnv e{sc, &fx, &pr, true};
            tab[pi].fn(e);
            r.fault(usecopy ? "static_ctx_copy" : "static_ctx");
            r.ev(std::string("static ") + (usecopy ? "copy " : "") + tab[pi].name + " " + run_digest(pr));
            const ProbeRun &gr = gold_run(pi);
            for (size_t i = 0; i < pr.calls.size() && r.ok; i++) {
                const CallRec &c = pr.calls[i];
                r.cmp();
                if (c.misuse) { r.expected_illegal += c.ill; if (i >= gr.calls.size() || c.ill != gr.calls[i].ill) r.violate("C20", "static_divergence", c.api, "deliberate misuse is reported differently on the static context"); continue; }
                if (c.ill == 0) {
                    if (i >= gr.calls.size() || c.ret != gr.calls[i].ret || c.out != gr.calls[i].out)
                        r.violate("C20", "static_divergence", c.api, std::string("static context: ") + c.api + " returned a different result than the full context without reporting illegal use (probe " + tab[pi].name + ")");
                } else {
                    r.expected_illegal += c.ill;
                    auto it = ns.find(c.api);
                    bool documented = it != ns.end() && it->second == 1;
                    if (!documented)
                        r.violate("C20", "static_undocumented_illegal", c.api, std::string(c.api) + " is documented to accept the static context (no \"not secp256k1_context_static\" in its header comment) but reported illegal use: " + g_mon.last_illegal);
                    else if (c.ill != 1 || c.ret != 0)
                        r.violate("C20", "static_illegal_shape", c.api, "illegal use must be reported exactly once with return 0");
                    else r.probe("static_refused");
                }
            }
        }
        free(copy);
    }

    // ---------------------------------------------------------------- phase 3: shared context, seeded schedule
    if (r.ok) {
        int ntasks = (int)std::max<int64_t>(1, std::min<int64_t>(16, p.c("ntasks", 2)));
        int rounds = (int)std::max<int64_t>(0, std::min<int64_t>(8, p.c("rounds", 1)));
        secp256k1_context *sh = L(secp256k1_context_create(SECP256K1_CONTEXT_NONE));
        for (const Op &o : p.ops) {
            if (o.k == "sh.rand" && o.x.size() >= 32) { (void)L(secp256k1_context_randomize(sh, o.x.data())); r.fault("sh.rand"); }
            if (o.k == "sh.setcomp") { L(secp256k1_context_set_sha256_compression(sh, probe_compression)); r.fault("sh.setcomp"); }
        }
        std::vector<Region> lib;
        collect_library_writable(lib);
        r.probes["max:lib_writable_bytes"] = 0;
        for (auto &x : lib) r.probes["max:lib_writable_bytes"] += x.hi - x.lo;
        for (int rd = 0; rd < rounds && r.ok; rd++) {
            std::vector<int> prog(ntasks, -1);
            for (const Op &o : p.ops) if (o.k == "task" && o.arg(1) == rd) { int t = (int)((o.arg(0) % ntasks + ntasks) % ntasks); prog[t] = (int)((o.arg(2) % NP + NP) % NP); }
            std::vector<int> tasks;
            for (int t = 0; t < ntasks; t++) if (prog[t] >= 0) tasks.push_back(t);
            if (tasks.empty()) continue;
            for (int t : tasks) gold_run(prog[t]);
            // two passes: sequential dry run on the shared context (measures edges per call), then the seeded schedule
            std::vector<std::vector<int64_t>> dry;
            for (int pass = 0; pass < 2 && r.ok; pass++) {
                std::vector<ProbeRun> runs(tasks.size());
                g_sched.reset();
                for (size_t k = 0; k < tasks.size(); k++) {
                    int pi = prog[tasks[k]];
                    ProbeRun *out = &runs[k];
                    g_sched.add_task([=, &tab]() { ProbeEnv e{sh, &fx, out, false}; tab[pi].fn(e); });
                }
                g_sched.add_region(sh, ctxsize, "shared_ctx", -1);
                g_sched.add_region(&fx, sizeof fx, "fixtures", -1);
                g_sched.add_region(gold, ctxsize, "golden_ctx", -1);
                for (auto &x : lib) g_sched.regions.push_back(x);
                g_sched.detect = true;
                uint64_t base = snapshot(sh, ctxsize, fx, lib);
                bool snap_bad = false;
                g_sched.on_switch = [&]() { if (snapshot(sh, ctxsize, fx, lib) != base) snap_bad = true; };
                if (pass == 1) {
                    g_sched.dry_edges = dry;
                    for (const Op &o : p.ops) if (o.k == "pre" && o.arg(0) == rd) {
                        int t = (int)((o.arg(1) % ntasks + ntasks) % ntasks);
                        int k = -1;
                        for (size_t q = 0; q < tasks.size(); q++) if (tasks[q] == t) k = (int)q;
                        if (k < 0) continue;
                        int64_t ncalls = (int64_t)dry[k].size();
                        if (ncalls == 0) continue;
                        g_sched.preempts.push_back(Preempt{k, ((o.arg(2) % ncalls) + ncalls) % ncalls, ((o.arg(3) % 1000000) + 1000000) % 1000000, (int)(o.arg(4) & 0xff), false});
                    }
                }
                int64_t i0 = g_mon.illegal_count;
                g_sched.run(pass == 1 ? (int)(p.c("first") % (int64_t)tasks.size()) : 0);
                if (pass == 0) { dry.clear(); for (auto &t : g_sched.tasks) dry.push_back(t.edges_per_call); }
                // verdicts
                if (g_sched.race.hit) {
                    const RaceReport &rc = g_sched.race;
                    int pi = prog[tasks[rc.task]];
                    const char *api = (rc.call >= 0 && (size_t)rc.call < runs[rc.task].calls.size()) ? runs[rc.task].calls[rc.call].api : "?";
                    r.violate("C20", "race", rc.where.substr(0, rc.where.find('+')), std::string("store to ") + rc.where + " by task " + std::to_string(rc.task) + " (probe " + tab[pi].name + ", call #" + std::to_string(rc.call) + " " + api + ", edge " + std::to_string(rc.edge) + ") while other tasks may read it");
                }
                if (snap_bad) r.violate("C20", "shared_state_modified", "snapshot", "bytes of the shared context / fixtures / library image changed during a const-API phase");
                { int64_t want = 0; for (auto &pr : runs) want += misuse_callbacks(pr); r.expected_illegal += want;
                  if (g_mon.illegal_count - i0 != want) r.violate("C20", "concurrent_divergence", "illegal_callback", "unexpected illegal callback count during the concurrent phase (" + std::to_string(g_mon.illegal_count - i0) + " vs " + std::to_string(want) + "): " + g_mon.last_illegal); }
                for (size_t k = 0; k < tasks.size() && r.ok; k++) {
                    check_vs_gold(prog[tasks[k]], runs[k], pass ? "concurrent_divergence" : "history_divergence",
                                  pass ? "output under the seeded schedule differs from the golden bytes" : "output on the shared context differs from the golden bytes");
                    r.ev("round " + std::to_string(rd) + " pass " + std::to_string(pass) + " task " + std::to_string(tasks[k]) + " " + tab[prog[tasks[k]]].name + " " + run_digest(runs[k]));
                }
                if (pass == 1) {
                    r.sched(g_sched.switch_hash);
                    r.probes["switches"] += g_sched.switches;
                    r.probes["edges_executed"] += g_sched.edges_seen;
                    r.probes["stores_checked"] += g_sched.stores_seen;
                    int fired = 0;
                    for (auto &gh : g_sched.guard_hits) { fired += gh.second; r.cover.insert("g:" + std::to_string(gh.first)); }
                    if (fired) r.faults["preempt"] += fired;
                    for (auto &ov : g_sched.overlap) r.cover.insert(std::string("ov:") + (api_name(ov.first.first) + 10) + "|" + (api_name(ov.first.second) + 10));
                }
                g_sched.on_switch = nullptr;
            }
            // quiescent point: every task is between calls; a writer operation may run now
            for (const Op &o : p.ops) {
                if (o.k != "writer" || o.arg(0) != rd || !r.ok) continue;
                int kind = (int)(o.arg(1) % 5);
                unsigned char seed[32]; memset(seed, 0, 32); if (o.x.size() >= 32) memcpy(seed, o.x.data(), 32);
                if (kind == 0) (void)L(secp256k1_context_randomize(sh, seed));
                else if (kind == 1) (void)L(secp256k1_context_randomize(sh, NULL));
                else if (kind == 2) L(secp256k1_context_set_sha256_compression(sh, probe_compression));
                else if (kind == 3) L(secp256k1_context_set_sha256_compression(sh, NULL));
                else { secp256k1_context *c2 = L(secp256k1_context_clone(sh)); L(secp256k1_context_destroy(sh)); sh = c2; }
                r.fault("writer." + std::to_string(kind));
                r.ev("writer " + std::to_string(kind));
            }
        }
        g_sched.reset();
        L(secp256k1_context_destroy(sh));
    }
    L(secp256k1_context_destroy(gold));
    { uint64_t h = 0; for (auto &x : libimg) h = fnv1a(x.lo, x.hi - x.lo, h);
      if (g_sched.global_hits) r.violate("C20", "global_state", g_sched.global_where.substr(0, g_sched.global_where.find('+')), "the library stored into its own writable image (" + g_sched.global_where + ", " + std::to_string(g_sched.global_hits) + " stores): mutable global state");
      else if (h != libhash0) r.violate("C20", "global_state", "snapshot", "bytes of the library's writable image changed during the run: mutable global state"); }
    r.probes["max:guards_total"] = sancov_guard_count();
    r.probes["compress_seam_calls"] += g_seamc.compress_calls;
    monitors_epilogue(r, r.expected_illegal, r.expected_error);
}

static const World ctx_world = {"ctx", "C20", ctx_generate, ctx_execute};
SIM_REGISTER_WORLD(ctx_world)

}  // namespace sim
