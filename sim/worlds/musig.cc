// World `musig` (C12, C13): N signers + coordinator on a simulated network, refinement against an
// independent BIP-327 / BIP-340 model evaluated on what each party actually received.
#include "../net.h"
#include "../seams.h"
#include "../ref/ref.h"
extern "C" {
#include <secp256k1.h>
#include <secp256k1_extrakeys.h>
#include <secp256k1_schnorrsig.h>
#include <secp256k1_musig.h>
}
#include <algorithm>

namespace sim {
namespace {

enum { K_KEYS, K_TWEAKS, K_MSG, K_ADAPTOR, K_NONCE_REQ, K_PUBNONCE, K_AGGNONCE, K_PSIG, K_NACK, K_NKINDS };
const char *const KN[] = {"KEYS", "TWEAKS", "MSG", "ADAPTOR", "NONCE_REQ", "PUBNONCE", "AGGNONCE", "PSIG", "NACK"};
enum { F_BYZ_CANCEL = NF_WORLD1, F_EQUIVOCATE = NF_WORLD2 };
enum { T_ATTEMPT = 1 };

typedef std::array<uint8_t, 33> K33;
typedef std::array<uint8_t, 66> N66;

bool all_zero(const void *p, size_t n) { const uint8_t *b = (const uint8_t *)p; for (size_t i = 0; i < n; i++) if (b[i]) return false; return true; }

struct View {
    bool have_keys = false, have_tweaks = false, have_msg = false, have_adaptor = false;
    bool clean_keys = false, clean_tweaks = false, clean_msg = false, clean_adaptor = false;
    std::vector<K33> keys;
    std::vector<std::pair<int, ref::B32>> tweaks;
    uint8_t msg[32]; bool want_adaptor = false;
    uint8_t adaptor33[33];
    // derived (volatile)
    bool cache_ok = false, cache_tweaked = false;
    secp256k1_musig_keyagg_cache cache;
    ref::KeyAggCtx model;
    std::vector<secp256k1_pubkey> pks;   // in aggregation order
    std::vector<K33> order;              // serialisations in aggregation order
    secp256k1_pubkey adaptor_pk; ref::Pt adaptor_pt;
    bool ready() const { return have_keys && have_tweaks && have_msg && (!want_adaptor || have_adaptor); }
    bool clean() const { return clean_keys && clean_tweaks && clean_msg && (!want_adaptor || clean_adaptor); }
    void drop_derived() { cache_ok = false; cache_tweaked = false; pks.clear(); order.clear(); }
};

struct MusigSim {
    const Plan &p; Result &r; Net net;
    secp256k1_context *ctx = nullptr;
    bool frugal = false;
    const secp256k1_context *fc(const char *api) { if (frugal && !documented_not_static(api)) { r.probe("static_ctx_call"); return secp256k1_context_static; } return ctx; }
    int n = 2; bool sort = false, adaptor = false, naive = false, sloppy = false; int max_attempts = 5;
    uint64_t inseed = 0; uint64_t draw = 0;
    // ground truth
    std::vector<ref::B32> sk; std::vector<secp256k1_keypair> kp; std::vector<K33> pk33; std::vector<secp256k1_pubkey> pk;
    uint8_t msg[32]; uint8_t adaptor_sk[32]; K33 adaptor33;
    std::vector<std::pair<int, ref::B32>> tweaks;
    struct SignerCfg { int api = 0; int64_t device = 0; int bits = 32; bool give_sk = true, give_extra = false; };
    std::vector<SignerCfg> scfg;
    // signer state
    struct Signer {
        View v; Disk disk;
        std::map<int, secp256k1_musig_secnonce> secnonce;   // RAM only
        std::map<int, N66> pubnonce;                         // RAM only
        std::map<int, bool> signed_;                         // RAM only
        std::map<int, Msg> pending_agg;                      // aggnonce received before the set-up was complete
        uint64_t counter = 0;
    };
    std::vector<Signer> S;   // index 1..n used
    // coordinator state
    struct Coord {
        View v; Disk disk; int attempt = 0; bool done = false;
        std::map<int, N66> pn; std::map<int, bool> pn_clean; std::map<int, int> byz;   // per signer for the current attempt
        std::map<int, ref::B32> psig;
        bool agg_sent = false; secp256k1_musig_session session; ref::SessionVals sv; uint8_t aggnonce66[66]; bool session_ok = false;
    } C;
    std::map<int, bool> dirty;   // attempt -> some consumed message was altered / crash happened
    int last_fault_attempt = 0;
    // history-level registries (C13)
    struct Emit { int signer; N66 pn; ref::U256 b, e; ref::B32 s; int call; };
    std::vector<Emit> emitted;
    struct PnReg { N66 pn; Bytes tuple; };
    std::vector<PnReg> pnreg;
    int call_no = 0;
    bool final_done = false;

    MusigSim(const Plan &p_, Result &r_) : p(p_), r(r_) {}

    void fresh32(uint8_t *out) {   // the node's RNG: never repeats, survives crashes (it is not state)
        uint8_t buf[16];
        for (int i = 0; i < 8; i++) { buf[i] = (uint8_t)(inseed >> (8 * i)); buf[8 + i] = (uint8_t)(draw >> (8 * i)); }
        draw++;
        ref::sha256(buf, 16, out);
    }
    void mark_fault_attempt(int a) { if (a > last_fault_attempt) last_fault_attempt = a; }

    // ------------------------------------------------------------ set-up handling (both roles)
    void build_cache(View &v, const std::string &who) {
        v.drop_derived();
        if (!v.have_keys) return;
        std::vector<secp256k1_pubkey> pks(v.keys.size());
        for (size_t i = 0; i < v.keys.size(); i++)
            if (!L01(secp256k1_ec_pubkey_parse(fc("secp256k1_ec_pubkey_parse"), &pks[i], v.keys[i].data(), 33))) return;   // checked on receipt already
        std::vector<const secp256k1_pubkey *> ptr;
        for (auto &x : pks) ptr.push_back(&x);
        std::vector<K33> order = v.keys;
        if (sort) {
            L01(secp256k1_ec_pubkey_sort(fc("secp256k1_ec_pubkey_sort"), ptr.data(), ptr.size()));
            std::sort(order.begin(), order.end());
            for (size_t i = 0; i < ptr.size(); i++) {
                uint8_t b[33]; size_t l = 33;
                L01(secp256k1_ec_pubkey_serialize(fc("secp256k1_ec_pubkey_serialize"), b, &l, ptr[i], SECP256K1_EC_COMPRESSED));
                r.cmp();
                if (memcmp(b, order[i].data(), 33) != 0) { r.violate("C12", "sort_order", "secp256k1_ec_pubkey_sort", "sorted order differs from lexicographic order of compressed encodings"); return; }
            }
        }
        secp256k1_xonly_pubkey agg;
        MonMark mk = mon_mark();
        int ok = L01(secp256k1_musig_pubkey_agg(fc("secp256k1_musig_pubkey_agg"), &agg, &v.cache, ptr.data(), ptr.size()));
        v.model = ref::keyagg(order);
        r.cmp();
        if (!mon_quiet_since(mk)) { r.violate("C12", "callback", "secp256k1_musig_pubkey_agg", "callback on valid arguments"); return; }
        if ((ok != 0) != v.model.ok) { r.violate("C12", "keyagg", "secp256k1_musig_pubkey_agg", who + ": library and BIP-327 model disagree on success of KeyAgg"); return; }
        if (!ok) return;
        uint8_t x[32], mx[32];
        L01(secp256k1_xonly_pubkey_serialize(fc("secp256k1_xonly_pubkey_serialize"), x, &agg)); ref::xbytes(v.model.Q, mx);
        if (memcmp(x, mx, 32) != 0) { r.violate("C12", "keyagg", "secp256k1_musig_pubkey_agg", who + ": aggregate key " + hex(x, 32) + " != model " + hex(mx, 32)); return; }
        if (v.model.has_second) r.probe("second_key_used");
        v.pks.clear(); for (auto q : ptr) v.pks.push_back(*q);
        v.order = order;
        v.cache_ok = true;
        if (v.have_tweaks) {
            for (auto &tw : v.tweaks) {
                secp256k1_pubkey out; uint8_t ob[33], mb[33]; size_t l = 33;
                ref::KeyAggCtx before = v.model;
                bool was_odd = v.model.Q.y.is_odd();
                mk = mon_mark();
                int tok = tw.first ? L01(secp256k1_musig_pubkey_xonly_tweak_add(fc("secp256k1_musig_pubkey_xonly_tweak_add"), &out, &v.cache, tw.second.data()))
                                   : L01(secp256k1_musig_pubkey_ec_tweak_add(fc("secp256k1_musig_pubkey_ec_tweak_add"), &out, &v.cache, tw.second.data()));
                bool mok = ref::apply_tweak(v.model, tw.second.data(), tw.first != 0);
                r.cmp();
                if (!mon_quiet_since(mk)) { r.violate("C12", "callback", "secp256k1_musig_pubkey_tweak_add", "callback on valid arguments"); return; }
                if ((tok != 0) != mok) { r.violate("C12", "tweak", tw.first ? "secp256k1_musig_pubkey_xonly_tweak_add" : "secp256k1_musig_pubkey_ec_tweak_add", who + ": library and model disagree on tweak success"); return; }
                if (!mok) { v.model = before; r.probe("tweak_refused"); continue; }   // refused identically; the cache must still be usable (checked by what follows)
                if (tw.first && was_odd) r.probe("xonly_tweak_negated");
                L01(secp256k1_ec_pubkey_serialize(fc("secp256k1_ec_pubkey_serialize"), ob, &l, &out, SECP256K1_EC_COMPRESSED)); ref::ser33(v.model.Q, mb);
                if (memcmp(ob, mb, 33) != 0) { r.violate("C12", "tweak", tw.first ? "secp256k1_musig_pubkey_xonly_tweak_add" : "secp256k1_musig_pubkey_ec_tweak_add", who + ": tweaked key " + hex(ob, 33) + " != model " + hex(mb, 33)); return; }
            }
            v.cache_tweaked = true;
            secp256k1_pubkey got; uint8_t gb[33], mb[33]; size_t l = 33;
            if (L01(secp256k1_musig_pubkey_get(fc("secp256k1_musig_pubkey_get"), &got, &v.cache))) {
                L01(secp256k1_ec_pubkey_serialize(fc("secp256k1_ec_pubkey_serialize"), gb, &l, &got, SECP256K1_EC_COMPRESSED)); ref::ser33(v.model.Q, mb);
                r.cmp();
                if (memcmp(gb, mb, 33) != 0) r.violate("C12", "tweak", "secp256k1_musig_pubkey_get", who + ": final aggregate key differs from model");
            }
        }
        if (v.want_adaptor && v.have_adaptor) {
            if (!L01(secp256k1_ec_pubkey_parse(fc("secp256k1_ec_pubkey_parse"), &v.adaptor_pk, v.adaptor33, 33)) || !ref::parse_pubkey(v.adaptor33, 33, &v.adaptor_pt)) v.have_adaptor = false;
        }
    }
    // returns true if the view changed
    bool on_setup(View &v, const Msg &m, const std::string &who) {
        secp256k1_pubkey tmp;
        switch (m.kind) {
            case K_KEYS: {
                if (m.bytes.empty() || m.bytes.size() % 33 != 0 || m.bytes.size() / 33 > 32) return false;
                std::vector<K33> ks;
                for (size_t i = 0; i < m.bytes.size(); i += 33) {
                    K33 k; memcpy(k.data(), &m.bytes[i], 33);
                    ref::Pt mp;
                    int ok = L01(secp256k1_ec_pubkey_parse(fc("secp256k1_ec_pubkey_parse"), &tmp, k.data(), 33));
                    r.cmp();
                    if ((ok != 0) != ref::parse_pubkey(k.data(), 33, &mp)) { r.violate("C12", "parse", "secp256k1_ec_pubkey_parse", "library and model disagree on a received key " + hex(k.data(), 33)); return false; }
                    if (!ok) return false;
                    ks.push_back(k);
                }
                v.keys = ks; v.have_keys = true; v.clean_keys = m.intact();
                return true;
            }
            case K_TWEAKS: {
                if (m.bytes.size() % 33 != 0 || m.bytes.size() / 33 > 8) return false;
                v.tweaks.clear();
                for (size_t i = 0; i < m.bytes.size(); i += 33) { ref::B32 t; memcpy(t.data(), &m.bytes[i + 1], 32); v.tweaks.push_back(std::make_pair(m.bytes[i] & 1, t)); }
                v.have_tweaks = true; v.clean_tweaks = m.intact();
                return true;
            }
            case K_MSG:
                if (m.bytes.size() != 33) return false;
                memcpy(v.msg, m.bytes.data(), 32); v.want_adaptor = m.bytes[32] & 1; v.have_msg = true; v.clean_msg = m.intact();
                return true;
            case K_ADAPTOR:
                if (m.bytes.size() != 33) return false;
                if (!L01(secp256k1_ec_pubkey_parse(fc("secp256k1_ec_pubkey_parse"), &tmp, m.bytes.data(), 33))) return false;
                memcpy(v.adaptor33, m.bytes.data(), 33); v.have_adaptor = true; v.clean_adaptor = m.intact();
                return true;
        }
        (void)who;
        return false;
    }

    // ------------------------------------------------------------ signer
    void signer_persist(int i) {
        Signer &s = S[i];
        Bytes flags{(uint8_t)s.v.have_keys, (uint8_t)s.v.have_tweaks, (uint8_t)s.v.have_msg, (uint8_t)s.v.have_adaptor, (uint8_t)s.v.clean_keys, (uint8_t)s.v.clean_tweaks, (uint8_t)s.v.clean_msg, (uint8_t)s.v.clean_adaptor, (uint8_t)s.v.want_adaptor};
        s.disk.write("flags", flags);
        Bytes kb; for (auto &k : s.v.keys) kb.insert(kb.end(), k.begin(), k.end());
        s.disk.write("keys", kb);
        Bytes tb; for (auto &t : s.v.tweaks) { tb.push_back((uint8_t)t.first); tb.insert(tb.end(), t.second.begin(), t.second.end()); }
        s.disk.write("tweaks", tb);
        s.disk.write("msg", Bytes(s.v.msg, s.v.msg + 32));
        s.disk.write("adaptor", Bytes(s.v.adaptor33, s.v.adaptor33 + 33));
        s.disk.sync();
    }
    void signer_reboot(int i) {
        Signer &s = S[i];
        s.disk.crash();
        s.secnonce.clear(); s.pubnonce.clear(); s.signed_.clear(); s.pending_agg.clear();
        View nv;
        Bytes b;
        if (s.disk.read("flags", &b) && b.size() == 9) {
            nv.have_keys = b[0]; nv.have_tweaks = b[1]; nv.have_msg = b[2]; nv.have_adaptor = b[3];
            nv.clean_keys = b[4]; nv.clean_tweaks = b[5]; nv.clean_msg = b[6]; nv.clean_adaptor = b[7]; nv.want_adaptor = b[8];
            Bytes kb; s.disk.read("keys", &kb);
            for (size_t k = 0; k + 33 <= kb.size(); k += 33) { K33 x; memcpy(x.data(), &kb[k], 33); nv.keys.push_back(x); }
            Bytes tb; s.disk.read("tweaks", &tb);
            for (size_t k = 0; k + 33 <= tb.size(); k += 33) { ref::B32 t; memcpy(t.data(), &tb[k + 1], 32); nv.tweaks.push_back(std::make_pair(tb[k] & 1, t)); }
            Bytes mb; if (s.disk.read("msg", &mb) && mb.size() == 32) memcpy(nv.msg, mb.data(), 32);
            Bytes ab; if (s.disk.read("adaptor", &ab) && ab.size() == 33) memcpy(nv.adaptor33, ab.data(), 33);
        }
        Bytes cb; if (s.disk.read("counter", &cb) && cb.size() == 8) { s.counter = 0; for (int k = 0; k < 8; k++) s.counter = (s.counter << 8) | cb[k]; }
        s.v = nv;
        build_cache(s.v, "signer " + std::to_string(i) + " (reboot)");
    }
    void register_pubnonce(const N66 &pn, const Bytes &tuple) {
        for (auto &e : pnreg) {
            r.cmp();
            if (e.pn == pn && e.tuple != tuple) {
                r.violate("C13", "pubnonce_repeat", "nonce_gen", "two nonce generations with different inputs produced the same public nonce " + hex(pn.data(), 66).substr(0, 40) + "... (inputs " + hex(e.tuple).substr(0, 80) + " / " + hex(tuple).substr(0, 80) + ")");
                return;
            }
        }
        pnreg.push_back(PnReg{pn, tuple});
    }
    void signer_nonce_req(int i, int a) {
        Signer &s = S[i];
        if (s.pubnonce.count(a)) {   // resend, never regenerate for an attempt we still remember
            Msg o; o.kind = K_PUBNONCE; o.sid = 0; o.attempt = a; o.from = i; o.to = 0; o.bytes.assign(s.pubnonce[a].begin(), s.pubnonce[a].end());
            net.send(o);
            return;
        }
        const SignerCfg &c = scfg[i];
        secp256k1_musig_secnonce sn; secp256k1_musig_pubnonce pn;
        const secp256k1_musig_keyagg_cache *cache = s.v.cache_ok ? &s.v.cache : NULL;
        const unsigned char *m = s.v.have_msg ? s.v.msg : NULL;
        uint8_t extra[32]; fresh32(extra);   // public extra input; drawn even when unused so streams stay aligned
        const unsigned char *ex = c.give_extra ? extra : NULL;
        Bytes tuple;
        int ok;
        uint8_t model_rand[32] = {0};
        MonMark mk = mon_mark();
        if (c.api == 0) {
            uint8_t secrand[32]; fresh32(secrand);
            memcpy(model_rand, secrand, 32);
            tuple.push_back(0); tuple.insert(tuple.end(), secrand, secrand + 32);
            ok = L01(secp256k1_musig_nonce_gen(fc("secp256k1_musig_nonce_gen"), &sn, &pn, secrand, c.give_sk ? sk[i].data() : NULL, &pk[i], m, cache, ex));
            r.cmp();
            if (ok && !all_zero(secrand, 32)) { r.violate("C13", "secrand_not_wiped", "secp256k1_musig_nonce_gen", "session_secrand32 not zeroed after successful nonce generation"); return; }
            tuple.push_back(c.give_sk);
        } else {
            s.counter++;
            Bytes cb(8); for (int k = 0; k < 8; k++) cb[k] = (uint8_t)(s.counter >> (56 - 8 * k));
            s.disk.write("counter", cb); s.disk.sync();    // synced before use
            uint64_t cnt = ((uint64_t)c.device << c.bits) + s.counter;
            tuple.push_back(1); for (int k = 0; k < 8; k++) tuple.push_back((uint8_t)(cnt >> (56 - 8 * k)));
            for (int k = 0; k < 8; k++) model_rand[k] = (uint8_t)(cnt >> (56 - 8 * k));   // documented: the counter takes the place of session_secrand32
            ok = L01(secp256k1_musig_nonce_gen_counter(fc("secp256k1_musig_nonce_gen_counter"), &sn, &pn, cnt, &kp[i], m, cache, ex));
            if (c.device) r.probe("counter_high_bits");
        }
        tuple.insert(tuple.end(), pk33[i].begin(), pk33[i].end());
        if (m) tuple.insert(tuple.end(), m, m + 32); else tuple.push_back(0xee);
        if (cache) { uint8_t q[32]; ref::xbytes(s.v.model.Q, q); tuple.insert(tuple.end(), q, q + 32); } else tuple.push_back(0xef);
        if (ex) tuple.insert(tuple.end(), ex, ex + 32); else tuple.push_back(0xed);
        r.cmp();
        if (!ok || !mon_quiet_since(mk)) { r.violate("C12", "nonce_gen", c.api ? "secp256k1_musig_nonce_gen_counter" : "secp256k1_musig_nonce_gen", "nonce generation failed on valid arguments: " + g_mon.last_illegal); return; }
        r.probe(std::string("noncegen_") + (c.api ? "counter" : "rand") + (m ? "_msg" : "") + (cache ? (s.v.cache_tweaked ? "_tweakedcache" : "_cache") : "") + (ex ? "_extra" : "") + (c.give_sk ? "" : "_nosk"));
        N66 pb;
        L01(secp256k1_musig_pubnonce_serialize(fc("secp256k1_musig_pubnonce_serialize"), pb.data(), &pn));
        register_pubnonce(pb, tuple);
        {   // BIP-327 NonceGen: the public nonce is the model's function of exactly the inputs given
            uint8_t q[32], k1[32], k2[32], want[66];
            if (cache) ref::xbytes(s.v.model.Q, q);
            bool uses_sk = c.api ? true : c.give_sk;
            r.cmp();
            bool match = false;
            // the counter variant is documented as nonce_gen with the counter "instead of a secret random value"; how the 64-bit
            // value is laid out in the 32 bytes is not documented, so any of the four plain layouts is accepted
            for (int enc = 0; enc < (c.api ? 4 : 1) && !match; enc++) {
                uint8_t rnd[32] = {0};
                if (!c.api) memcpy(rnd, model_rand, 32);
                else for (int k = 0; k < 8; k++) rnd[(enc & 2 ? 24 : 0) + k] = model_rand[enc & 1 ? 7 - k : k];
                match = !ref::nonce_gen(rnd, uses_sk ? sk[i].data() : NULL, pk33[i].data(), cache ? q : NULL, m, 32, ex, 32, k1, k2, want) || memcmp(want, pb.data(), 66) == 0;
                if (enc) r.probe("noncegen_counter_alt_layout_tried");
            }
            if (!match) {
                r.violate("C12", "noncegen_differs_from_bip327", c.api ? "secp256k1_musig_nonce_gen_counter" : "secp256k1_musig_nonce_gen",
                          std::string("public nonce is not NonceGen(rand, sk, pk, aggpk, msg, extra) of the inputs given (msg ") + (m ? "present" : "absent") + ", aggpk " + (cache ? "present" : "absent") + ", extra " + (ex ? "present" : "absent") + ", sk " + (uses_sk ? "present" : "absent") + "): got " + hex(pb.data(), 66).substr(0, 40) + "... want " + hex(want, 66).substr(0, 40) + "...");
                return;
            }
        }
        s.secnonce[a] = sn; s.pubnonce[a] = pb;
        Msg o; o.kind = K_PUBNONCE; o.attempt = a; o.from = i; o.to = 0; o.bytes.assign(pb.begin(), pb.end());
        net.send(o);
    }
    void signer_aggnonce(int i, const Msg &m) {
        Signer &s = S[i];
        int a = m.attempt;
        if (!s.v.ready() || !s.v.cache_ok || !s.v.cache_tweaked) { s.pending_agg[a] = m; return; }
        if (!s.secnonce.count(a)) {   // nonce lost in a crash or never generated
            Msg o; o.kind = K_NACK; o.attempt = a; o.from = i; o.to = 0; net.send(o); return;
        }
        if (!naive && s.signed_[a]) return;   // careful signer: one signature per (session, attempt)
        if (!m.intact()) dirty[a] = true;
        secp256k1_musig_aggnonce an; secp256k1_musig_session sess;
        memset(&sess, 0, sizeof sess);
        bool parsed = m.bytes.size() == 66 && L01(secp256k1_musig_aggnonce_parse(fc("secp256k1_musig_aggnonce_parse"), &an, m.bytes.data()));
        { // parse verdict vs model
            ref::Pt a1, a2;
            bool mp = m.bytes.size() == 66 && ref::parse33_ext(m.bytes.data(), &a1) && ref::parse33_ext(m.bytes.data() + 33, &a2);
            r.cmp();
            if (parsed != mp) { r.violate("C12", "parse", "secp256k1_musig_aggnonce_parse", "library and model disagree on a received aggregate nonce " + hex(m.bytes)); return; }
        }
        ref::SessionVals sv; sv.ok = false;
        bool have_session = false;
        if (parsed) {
            MonMark mk = mon_mark();
            int ok = L01(secp256k1_musig_nonce_process(fc("secp256k1_musig_nonce_process"), &sess, &an, s.v.msg, &s.v.cache, s.v.want_adaptor ? &s.v.adaptor_pk : NULL));
            sv = ref::session_values(s.v.model, m.bytes.data(), s.v.msg, s.v.want_adaptor ? &s.v.adaptor_pt : nullptr);
            r.cmp();
            if (!ok || !sv.ok || !mon_quiet_since(mk)) { r.violate("C12", "nonce_process", "secp256k1_musig_nonce_process", "nonce_process failed on a parsed aggregate nonce"); return; }
            have_session = true;
        } else if (!sloppy) {
            Msg o; o.kind = K_NACK; o.attempt = a; o.from = i; o.to = 0; net.send(o); return;
        } else {
            r.fault("sloppy_bad_session");   // caller ignores the parse failure: partial_sign gets an uninitialised session
        }
        // ---- the call under test
        secp256k1_musig_partial_sig ps;
        memset(&ps, 0, sizeof ps);
        secp256k1_musig_secnonce &sn = s.secnonce[a];
        bool was_live = !all_zero(&sn, sizeof sn);
        int64_t ill0 = g_mon.illegal_count;
        int ok = L01(secp256k1_musig_partial_sign(fc("secp256k1_musig_partial_sign"), &ps, &sn, &kp[i], &s.v.cache, &sess));
        int64_t ill = g_mon.illegal_count - ill0;
        call_no++;
        r.cmp();
        if (!all_zero(&sn, sizeof sn)) { r.violate("C13", "secnonce_not_wiped", "secp256k1_musig_partial_sign", std::string("secret nonce object not all-zero after partial_sign returned ") + std::to_string(ok) + (have_session ? "" : " (call with invalid session)") + (was_live ? "" : " (nonce was already consumed)")); return; }
        bool expect_ok = was_live && have_session;
        if (!expect_ok) r.expected_illegal += ill;   // injected misuse: the callback is allowed
        else if (ill) { r.violate("C12", "callback", "secp256k1_musig_partial_sign", "illegal callback on a valid signing call: " + g_mon.last_illegal); return; }
        if ((ok != 0) != expect_ok) {
            r.violate(expect_ok ? "C12" : "C13", expect_ok ? "sign_failed" : "signed_with_dead_nonce", "secp256k1_musig_partial_sign", std::string("partial_sign returned ") + std::to_string(ok) + " but the single-use model expects " + (expect_ok ? "1" : "0") + (was_live ? "" : " (secret nonce already consumed)"));
            return;
        }
        if (!was_live) r.probe("sign_request_on_consumed_nonce");
        if (!ok) return;
        s.signed_[a] = true;
        ref::B32 psb;
        L01(secp256k1_musig_partial_sig_serialize(fc("secp256k1_musig_partial_sig_serialize"), psb.data(), &ps));
        // own partial signature must satisfy the model's PartialSigVerify for own key, nonce, session
        r.cmp();
        if (!ref::partial_sig_verify(s.v.model, sv, psb.data(), s.pubnonce[a].data(), pk33[i].data())) {
            r.violate("C12", "partial_sig_invalid", "secp256k1_musig_partial_sign", "signer " + std::to_string(i) + ": emitted partial signature does not satisfy BIP-327 PartialSigVerify for its own key/nonce/session");
            return;
        }
        if (sv.R.y.is_odd()) r.probe("final_nonce_odd");
        if (s.v.model.Q.y.is_odd()) r.probe("aggkey_odd");
        emitted.push_back(Emit{i, s.pubnonce[a], sv.b, sv.e, psb, call_no});
        Msg o; o.kind = K_PSIG; o.attempt = a; o.from = i; o.to = 0; o.bytes.assign(psb.begin(), psb.end());
        net.send(o);
    }
    void signer_on(int i, const Msg &m) {
        Signer &s = S[i];
        if (m.kind <= K_ADAPTOR) {
            if (on_setup(s.v, m, "signer " + std::to_string(i))) {
                signer_persist(i);
                build_cache(s.v, "signer " + std::to_string(i));
                if (s.v.ready() && s.v.cache_ok && s.v.cache_tweaked) {
                    auto pend = s.pending_agg; s.pending_agg.clear();
                    for (auto &kv : pend) if (r.ok) signer_aggnonce(i, kv.second);
                }
            }
        } else if (m.kind == K_NONCE_REQ) signer_nonce_req(i, m.attempt);
        else if (m.kind == K_AGGNONCE) signer_aggnonce(i, m);
    }

    // ------------------------------------------------------------ coordinator
    void coord_send_setup() {
        for (int i = 1; i <= n; i++) {
            Msg k; k.kind = K_KEYS; k.attempt = C.attempt; k.from = 0; k.to = i;
            for (int j = 1; j <= n; j++) k.bytes.insert(k.bytes.end(), pk33[j].begin(), pk33[j].end());
            net.send(k);
            Msg t; t.kind = K_TWEAKS; t.attempt = C.attempt; t.from = 0; t.to = i;
            for (auto &tw : tweaks) { t.bytes.push_back((uint8_t)tw.first); t.bytes.insert(t.bytes.end(), tw.second.begin(), tw.second.end()); }
            net.send(t);
            Msg mm; mm.kind = K_MSG; mm.attempt = C.attempt; mm.from = 0; mm.to = i; mm.bytes.assign(msg, msg + 32); mm.bytes.push_back(adaptor ? 1 : 0);
            net.send(mm);
            if (adaptor) { Msg ad; ad.kind = K_ADAPTOR; ad.attempt = C.attempt; ad.from = 0; ad.to = i; ad.bytes.assign(adaptor33.begin(), adaptor33.end()); net.send(ad); }
        }
    }
    void coord_begin_attempt() {
        if (C.done) return;
        if (C.attempt >= max_attempts) return;
        C.attempt++;
        Bytes ab{(uint8_t)C.attempt}; C.disk.write("attempt", ab); C.disk.sync();
        C.pn.clear(); C.pn_clean.clear(); C.byz.clear(); C.psig.clear(); C.agg_sent = false; C.session_ok = false;
        r.ev("coordinator: attempt " + std::to_string(C.attempt));
        coord_send_setup();
        for (int i = 1; i <= n; i++) { Msg q; q.kind = K_NONCE_REQ; q.attempt = C.attempt; q.from = 0; q.to = i; net.send(q); }
        net.timer(0, 5000, C.attempt);
    }
    void coord_abort(const std::string &why) {
        r.ev("coordinator: abort attempt " + std::to_string(C.attempt) + " (" + why + ")");
        r.probe("attempt_aborted");
        coord_begin_attempt();
    }
    void coord_pubnonce(const Msg &m) {
        if (m.attempt != C.attempt || C.agg_sent || C.done) return;
        int j = m.from;
        if (C.pn.count(j)) return;
        if (!m.intact()) dirty[C.attempt] = true;
        secp256k1_musig_pubnonce pn;
        bool ok = m.bytes.size() == 66 && L01(secp256k1_musig_pubnonce_parse(fc("secp256k1_musig_pubnonce_parse"), &pn, m.bytes.data()));
        { ref::Pt a, b; bool mp = m.bytes.size() == 66 && ref::parse_pubkey(m.bytes.data(), 33, &a) && ref::parse_pubkey(m.bytes.data() + 33, 33, &b);
          r.cmp(); if (ok != mp) { r.violate("C12", "parse", "secp256k1_musig_pubnonce_parse", "library and model disagree on a received public nonce " + hex(m.bytes)); return; } }
        if (!ok) { coord_abort("public nonce of signer " + std::to_string(j) + " does not parse"); return; }
        N66 b; memcpy(b.data(), m.bytes.data(), 66);
        C.pn[j] = b; C.pn_clean[j] = m.intact();
        if ((int)C.pn.size() < n) return;
        // Byzantine relay: replace one signer's public nonce by the negation of the sum of the others
        for (auto &bz : C.byz) {
            int v = bz.first, comp = bz.second;
            if (!C.pn.count(v) || n < 2) continue;
            for (int c = 0; c < 2; c++) {
                if (!(comp == 2 || comp == c)) continue;
                ref::Pt sum;
                for (auto &kv : C.pn) if (kv.first != v) { ref::Pt q; ref::parse_pubkey(kv.second.data() + 33 * c, 33, &q); sum = ref::add(sum, q); }
                if (sum.inf) continue;
                ref::ser33(ref::neg(sum), C.pn[v].data() + 33 * c);
            }
            C.pn_clean[v] = false; dirty[C.attempt] = true;
            r.fault("byz_cancel");
        }
        std::vector<secp256k1_musig_pubnonce> pns(n); std::vector<const secp256k1_musig_pubnonce *> pp; std::vector<N66> raw;
        for (int i = 1; i <= n; i++) { if (!L01(secp256k1_musig_pubnonce_parse(fc("secp256k1_musig_pubnonce_parse"), &pns[i - 1], C.pn[i].data()))) { coord_abort("replaced nonce does not parse"); return; } pp.push_back(&pns[i - 1]); raw.push_back(C.pn[i]); }
        secp256k1_musig_aggnonce an;
        MonMark mk = mon_mark();
        int aok = L01(secp256k1_musig_nonce_agg(fc("secp256k1_musig_nonce_agg"), &an, pp.data(), pp.size()));
        uint8_t ab[66], mb[66];
        bool mok = ref::nonce_agg(raw, mb);
        r.cmp();
        if (!aok || !mok || !mon_quiet_since(mk)) { r.violate("C12", "nonce_agg", "secp256k1_musig_nonce_agg", "nonce aggregation failed on parsed nonces"); return; }
        L01(secp256k1_musig_aggnonce_serialize(fc("secp256k1_musig_aggnonce_serialize"), ab, &an));
        if (memcmp(ab, mb, 66) != 0) { r.violate("C12", "nonce_agg", "secp256k1_musig_nonce_agg", "aggregate nonce " + hex(ab, 66) + " != model NonceAgg " + hex(mb, 66)); return; }
        if (all_zero(ab, 33) || all_zero(ab + 33, 33)) r.probe("aggnonce_component_infinity");
        memcpy(C.aggnonce66, ab, 66);
        // coordinator's own session
        if (!C.v.cache_ok || !C.v.cache_tweaked) { coord_abort("coordinator has no key aggregation cache"); return; }
        mk = mon_mark();
        int pok = L01(secp256k1_musig_nonce_process(fc("secp256k1_musig_nonce_process"), &C.session, &an, C.v.msg, &C.v.cache, adaptor ? &C.v.adaptor_pk : NULL));
        C.sv = ref::session_values(C.v.model, ab, C.v.msg, adaptor ? &C.v.adaptor_pt : nullptr);
        if (!pok || !C.sv.ok || !mon_quiet_since(mk)) { r.violate("C12", "nonce_process", "secp256k1_musig_nonce_process", "coordinator nonce_process failed"); return; }
        { ref::Pt r1, r2; ref::parse33_ext(ab, &r1); ref::parse33_ext(ab + 33, &r2); if (adaptor) r1 = ref::add(r1, C.v.adaptor_pt);
          if (ref::add(r1, ref::mul(C.sv.b, r2)).inf) r.probe("final_nonce_infinity_fallback_G"); }
        C.session_ok = true; C.agg_sent = true;
        for (int i = 1; i <= n; i++) { Msg o; o.kind = K_AGGNONCE; o.attempt = C.attempt; o.from = 0; o.to = i; o.bytes.assign(ab, ab + 66); net.send(o); }
    }
    bool lib_psig_verify(const ref::B32 &ps, const N66 &pn, const secp256k1_pubkey &key, bool *parsed) {
        secp256k1_musig_partial_sig sig; secp256k1_musig_pubnonce pno;
        *parsed = L01(secp256k1_musig_partial_sig_parse(fc("secp256k1_musig_partial_sig_parse"), &sig, ps.data())) != 0;
        if (!*parsed) return false;
        if (!L01(secp256k1_musig_pubnonce_parse(fc("secp256k1_musig_pubnonce_parse"), &pno, pn.data()))) return false;
        return L01(secp256k1_musig_partial_sig_verify(fc("secp256k1_musig_partial_sig_verify"), &sig, &pno, &key, &C.v.cache, &C.session)) != 0;
    }
    void coord_psig(const Msg &m) {
        if (m.attempt != C.attempt || !C.session_ok || C.done) return;
        int j = m.from;
        if (C.psig.count(j)) return;
        if (!m.intact()) dirty[C.attempt] = true;
        if (m.bytes.size() != 32) { coord_abort("partial signature with wrong length"); return; }
        ref::B32 ps; memcpy(ps.data(), m.bytes.data(), 32);
        bool parsed;
        MonMark mk = mon_mark();
        bool lv = lib_psig_verify(ps, C.pn[j], pk[j], &parsed);
        bool mparsed = ref::cmp(ref::U256::from_be(ps.data()), ref::FN.m) < 0;
        bool mv = mparsed && ref::partial_sig_verify(C.v.model, C.sv, ps.data(), C.pn[j].data(), pk33[j].data());
        r.cmp();
        if (!mon_quiet_since(mk)) { r.violate("C12", "callback", "secp256k1_musig_partial_sig_verify", "callback on valid arguments"); return; }
        if (parsed != mparsed || lv != mv) { r.violate("C12", "partial_sig_verify", "secp256k1_musig_partial_sig_verify", "library verdict " + std::to_string(lv) + " != model verdict " + std::to_string(mv) + " for signer " + std::to_string(j) + " psig " + hex(ps.data(), 32)); return; }
        // crossed pairs: same signature against another signer's key / nonce must agree with the model too (and fail)
        if (n >= 2) {
            int o = j % n + 1;
            bool d;
            bool lx1 = lib_psig_verify(ps, C.pn[j], pk[o], &d), mx1 = ref::partial_sig_verify(C.v.model, C.sv, ps.data(), C.pn[j].data(), pk33[o].data());
            bool lx2 = lib_psig_verify(ps, C.pn[o], pk[j], &d), mx2 = ref::partial_sig_verify(C.v.model, C.sv, ps.data(), C.pn[o].data(), pk33[j].data());
            r.cmp();
            if (lx1 != mx1 || lx2 != mx2) { r.violate("C12", "partial_sig_verify", "secp256k1_musig_partial_sig_verify", "crossed key/nonce: library and model disagree"); return; }
            if (mv && pk33[o] != pk33[j] && lx1) { r.violate("C12", "partial_sig_verify", "secp256k1_musig_partial_sig_verify", "partial signature verified for another signer's key"); return; }
        }
        if (!lv) { coord_abort("partial signature of signer " + std::to_string(j) + " does not verify"); return; }
        C.psig[j] = ps;
        if ((int)C.psig.size() < n) return;
        // aggregate
        std::vector<secp256k1_musig_partial_sig> sigs(n); std::vector<const secp256k1_musig_partial_sig *> sp; std::vector<ref::B32> raw;
        for (int i = 1; i <= n; i++) { L01(secp256k1_musig_partial_sig_parse(fc("secp256k1_musig_partial_sig_parse"), &sigs[i - 1], C.psig[i].data())); sp.push_back(&sigs[i - 1]); raw.push_back(C.psig[i]); }
        uint8_t sig[64], msig[64];
        mk = mon_mark();
        int aok = L01(secp256k1_musig_partial_sig_agg(fc("secp256k1_musig_partial_sig_agg"), sig, &C.session, sp.data(), sp.size()));
        bool mok = ref::partial_sig_agg(C.v.model, C.sv, raw, msig);
        r.cmp();
        if (!aok || !mok || !mon_quiet_since(mk) || memcmp(sig, msig, 64) != 0) { r.violate("C12", "sig_agg", "secp256k1_musig_partial_sig_agg", "aggregated signature " + hex(sig, 64) + " != model PartialSigAgg " + hex(msig, 64)); return; }
        uint8_t fin[64]; memcpy(fin, sig, 64);
        uint8_t q[32]; ref::xbytes(C.v.model.Q, q);
        secp256k1_xonly_pubkey xq;
        if (!L01(secp256k1_xonly_pubkey_parse(fc("secp256k1_xonly_pubkey_parse"), &xq, q))) { r.violate("C12", "final_verify", "secp256k1_xonly_pubkey_parse", "model aggregate key does not parse"); return; }
        if (adaptor) {
            int par = -1;
            int pok = L01(secp256k1_musig_nonce_parity(fc("secp256k1_musig_nonce_parity"), &par, &C.session));
            r.cmp();
            if (!pok || par != (C.sv.R.y.is_odd() ? 1 : 0)) { r.violate("C12", "adaptor", "secp256k1_musig_nonce_parity", "nonce parity differs from model"); return; }
            // the pre-signature itself must not verify
            bool pre_l = L01(secp256k1_schnorrsig_verify(fc("secp256k1_schnorrsig_verify"), sig, C.v.msg, 32, &xq)) != 0, pre_m = ref::bip340_verify(q, C.v.msg, 32, sig);
            r.cmp();
            if (pre_l != pre_m) { r.violate("C12", "final_verify", "secp256k1_schnorrsig_verify", "library and model disagree on the pre-signature"); return; }
            if (pre_l) { r.violate("C12", "adaptor", "secp256k1_musig_partial_sig_agg", "pre-signature verifies without the adaptor secret"); return; }
            uint8_t t[32];
            int ad = L01(secp256k1_musig_adapt(fc("secp256k1_musig_adapt"), fin, sig, adaptor_sk, par));
            int ex = L01(secp256k1_musig_extract_adaptor(fc("secp256k1_musig_extract_adaptor"), t, fin, sig, par));
            r.cmp();
            if (!ad || !ex || memcmp(t, adaptor_sk, 32) != 0) { r.violate("C12", "adaptor", "secp256k1_musig_extract_adaptor", "extract_adaptor(adapt(pre, t), pre) != t"); return; }
            if (par) r.probe("adaptor_odd_final_nonce");
        }
        bool lf = L01(secp256k1_schnorrsig_verify(fc("secp256k1_schnorrsig_verify"), fin, C.v.msg, 32, &xq)) != 0, mf = ref::bip340_verify(q, C.v.msg, 32, fin);
        r.cmp();
        if (lf != mf) { r.violate("C12", "final_verify", "secp256k1_schnorrsig_verify", "library and BIP-340 model disagree on the final signature"); return; }
        bool clean = !dirty[C.attempt] && C.v.clean();
        for (int i = 1; i <= n; i++) clean = clean && S[i].v.clean();
        if (!lf) {
            // every partial signature verified, so the aggregate must verify: BIP-327 guarantees it
            r.violate("C12", "honest_session_invalid", "secp256k1_musig_partial_sig_agg", std::string("all partial signatures verified but the aggregate is not a valid BIP-340 signature") + (clean ? " (clean attempt)" : ""));
            return;
        }
        C.done = true; final_done = true;
        r.probe(clean ? "done_clean" : "done_dirty");
        r.ev("coordinator: DONE attempt " + std::to_string(C.attempt) + " sig " + hex(fin, 64));
    }
    void coord_on(const Msg &m) {
        if (m.kind == K_PUBNONCE) coord_pubnonce(m);
        else if (m.kind == K_PSIG) coord_psig(m);
        else if (m.kind == K_NACK && m.attempt == C.attempt && !C.done) coord_abort("NACK from signer " + std::to_string(m.from));
    }
    void coord_reboot() {
        C.disk.crash();
        Bytes ab; int a = 0; if (C.disk.read("attempt", &ab) && ab.size() == 1) a = ab[0];
        bool was_done = C.done;
        C.attempt = a; C.pn.clear(); C.psig.clear(); C.agg_sent = false; C.session_ok = false; C.byz.clear();
        build_cache(C.v, "coordinator (reboot)");
        if (!was_done) coord_begin_attempt();
    }

    // ------------------------------------------------------------ history-level oracle (C13)
    void check_reuse() {
        for (size_t i = 0; i < emitted.size() && r.ok; i++)
            for (size_t j = i + 1; j < emitted.size() && r.ok; j++) {
                const Emit &a = emitted[i], &b = emitted[j];
                if (a.signer != b.signer || a.pn != b.pn) continue;
                r.cmp();
                if (a.b == b.b && a.e == b.e && a.s == b.s) continue;   // byte-identical repetition of the same signature is harmless
                std::string extra;
                if (a.b == b.b && a.e != b.e) {
                    // s1 - s2 = (e1 - e2) * a * g * d  -> the key leaks: d' = (s1-s2)/(e1-e2) is a multiple of the secret key
                    ref::U256 ds = ref::FN.sub(ref::U256::from_be(a.s.data()), ref::U256::from_be(b.s.data()));
                    ref::U256 de = ref::FN.sub(a.e, b.e);
                    ref::U256 x = ref::FN.mul(ds, ref::FN.inv(de));
                    uint8_t xb[32]; x.to_be(xb);
                    extra = " ; (s1-s2)/(e1-e2) = " + hex(xb, 32) + " = a*g*d, the signer's secret key up to the public KeyAgg coefficient";
                }
                r.violate("C13", "nonce_reuse", "secp256k1_musig_partial_sign", "signer " + std::to_string(a.signer) + " produced two different partial signatures (calls #" + std::to_string(a.call) + " and #" + std::to_string(b.call) + ") from one secret nonce " + hex(a.pn.data(), 66).substr(0, 32) + "..." + extra);
            }
    }

    // ------------------------------------------------------------ run
    void run() {
        n = (int)std::max<int64_t>(1, std::min<int64_t>(16, p.c("n", 2)));
        sort = p.c("sort"); adaptor = p.c("adaptor"); naive = p.c("naive"); sloppy = p.c("sloppy");
        max_attempts = (int)std::max<int64_t>(1, std::min<int64_t>(8, p.c("max_attempts", 5)));
        inseed = (uint64_t)p.c("inseed");
        ctx = L(secp256k1_context_create(SECP256K1_CONTEXT_NONE));
        { uint8_t sd[32]; fresh32(sd); (void)L(secp256k1_context_randomize(ctx, sd)); }
        if (p.c("comp")) L(secp256k1_context_set_sha256_compression(ctx, sim_model_compression));
        frugal = p.c("frugal");
        // keys
        sk.resize(n + 1); kp.resize(n + 1); pk33.resize(n + 1); pk.resize(n + 1); scfg.resize(n + 1); S.resize(n + 1);
        int keyclass = (int)p.c("keyclass");
        for (int i = 1; i <= n; i++) {
            fresh32(sk[i].data()); sk[i][0] &= 0x7f; sk[i][31] |= 1;
            if (i >= 2 && (keyclass == 2 || (keyclass == 1 && i == 2))) sk[i] = sk[1];
            if (i == 2 && keyclass == 3) { ref::U256 v = ref::FN.neg(ref::U256::from_be(sk[1].data())); v.to_be(sk[2].data()); }
            if (!L01(secp256k1_keypair_create(fc("secp256k1_keypair_create"), &kp[i], sk[i].data()))) { r.violate("C12", "setup", "secp256k1_keypair_create", "keypair_create failed"); return; }
            L01(secp256k1_keypair_pub(fc("secp256k1_keypair_pub"), &pk[i], &kp[i]));
            size_t l = 33; L01(secp256k1_ec_pubkey_serialize(fc("secp256k1_ec_pubkey_serialize"), pk33[i].data(), &l, &pk[i], SECP256K1_EC_COMPRESSED));
        }
        fresh32(msg);
        if (p.c("msgclass") == 1) memset(msg, 0xff, 32); else if (p.c("msgclass") == 2) memset(msg, 0, 32);
        fresh32(adaptor_sk); adaptor_sk[0] &= 0x7f; adaptor_sk[31] |= 1;
        { ref::Pt T = ref::mulG(ref::U256::from_be(adaptor_sk)); ref::ser33(T, adaptor33.data()); }
        for (const Op &o : p.ops) {
            if (o.k == "tweak" && tweaks.size() < 6) {
                ref::B32 t; fresh32(t.data());
                int cls = (int)o.arg(1);
                if (cls == 0) t[0] &= 0x7f;
                else if (cls == 1) memset(t.data(), 0xff, 32);        // >= n: must be refused by everyone
                else if (cls == 2) memset(t.data(), 0, 32);           // zero tweak: valid
                else if (o.x.size() == 32) memcpy(t.data(), o.x.data(), 32);
                tweaks.push_back(std::make_pair((int)(o.arg(0) & 1), t));
            } else if (o.k == "signer") {
                int i = (int)(((o.arg(0) % n) + n) % n) + 1;
                scfg[i].api = (int)(o.arg(1) & 1); scfg[i].device = o.arg(2) & 0xff; int b = (int)o.arg(3); scfg[i].bits = (b == 32 || b == 48 || b == 56) ? b : 32;
                scfg[i].give_sk = o.arg(4, 1) & 1; scfg[i].give_extra = o.arg(5) & 1;
            }
        }
        // coordinator's own view is the ground truth
        C.v.keys.assign(pk33.begin() + 1, pk33.end()); C.v.have_keys = C.v.clean_keys = true;
        C.v.tweaks = tweaks; C.v.have_tweaks = C.v.clean_tweaks = true;
        memcpy(C.v.msg, msg, 32); C.v.want_adaptor = adaptor; C.v.have_msg = C.v.clean_msg = true;
        memcpy(C.v.adaptor33, adaptor33.data(), 33); C.v.have_adaptor = C.v.clean_adaptor = adaptor;
        build_cache(C.v, "coordinator");
        net.init(&p, &r, KN);
        net.on_deliver = [&](const Msg &m) { if (!r.ok) return; if (m.attempt > 0 && !m.intact()) mark_fault_attempt(m.attempt); if (m.to == 0) coord_on(m); else if (m.to >= 1 && m.to <= n) signer_on(m.to, m); };
        net.on_timer = [&](int, int tag) { if (r.ok && tag == C.attempt && !C.done) coord_abort("timeout"); };
        net.on_crash = [&](int node) {
            node = ((node % (n + 1)) + n + 1) % (n + 1);
            for (int a = 0; a <= C.attempt; a++) dirty[a] = true;
            mark_fault_attempt(C.attempt);
            if (node == 0) coord_reboot(); else signer_reboot(node);
        };
        net.world_fault = [&](int f, Msg &m, int64_t a1, int64_t) -> bool {
            if (f == F_BYZ_CANCEL && m.kind == K_PUBNONCE) { C.byz[m.from] = (int)(((a1 % 3) + 3) % 3); mark_fault_attempt(m.attempt); return n >= 2; }
            if (f == F_EQUIVOCATE && m.kind == K_AGGNONCE) {
                // a malicious aggregator sends a second, different but well-formed aggregate nonce for the same attempt
                auto &lst = net.seen[K_PUBNONCE];
                if (lst.empty()) return false;
                Msg x = m; x.bytes = lst[(size_t)(((a1 % (int64_t)lst.size()) + lst.size()) % lst.size())]; x.sent = m.sent; x.misdelivered = true; x.copy = 2;
                if (x.bytes == m.bytes) return false;
                net.q.push(Net::Ev{net.now + 3, net.seq++, 0, x, x.to, 0});
                mark_fault_attempt(m.attempt);
                return true;
            }
            return false;
        };
        if (!r.ok) { cleanup(); return; }
        coord_begin_attempt();
        bool capped = false;
        while (r.ok && net.step(&capped)) {}
        if (capped) r.violate("C12", "step_cap", "run", "step cap hit");
        if (r.ok) check_reuse();
        // liveness: once faults stopped, a valid final signature within the next two attempts
        if (r.ok && !final_done) {
            r.cmp();
            if (max_attempts >= last_fault_attempt + 2)
                r.violate("C12", "liveness", "session", "no valid signature although attempts " + std::to_string(last_fault_attempt + 1) + ".." + std::to_string(max_attempts) + " ran without any injected fault (stuck state left behind by an earlier failed call?)");
            else r.probe("unfinished_faults_until_end");
        }
        r.probes["attempts"] += C.attempt;
        cleanup();
    }
    void cleanup() {
        if (ctx) L(secp256k1_context_destroy(ctx));
        ctx = nullptr;
        monitors_epilogue(r, r.expected_illegal, r.expected_error);
    }
};

}  // namespace

static void add_net_faults(Rng &g, Plan &p, int n, int attempts_with_faults, int nfaults) {
    for (int i = 0; i < nfaults; i++) {
        Op o; o.k = "nf";
        int kind = (int)g.below(K_NKINDS - 1);
        int att = (int)g.range(1, attempts_with_faults);
        int signer = (int)g.range(1, n);
        bool to_coord = (kind == K_PUBNONCE || kind == K_PSIG);
        int from = to_coord ? signer : 0, to = to_coord ? 0 : signer;
        int f;
        uint64_t w = g.below(100);
        if (w < 10) f = NF_DROP; else if (w < 22) f = NF_DUP; else if (w < 40) f = NF_FLIP; else if (w < 48) f = NF_SET; else if (w < 54) f = NF_ZERO;
        else if (w < 59) f = NF_FF; else if (w < 65) f = NF_TRUNC; else if (w < 70) f = NF_EXT; else if (w < 76) f = NF_SPLICE; else if (w < 86) f = NF_MISDELIVER;
        else if (w < 93) { f = F_BYZ_CANCEL; kind = K_PUBNONCE; from = signer; to = 0; } else { f = F_EQUIVOCATE; kind = K_AGGNONCE; from = 0; to = signer; }
        o.a = {kind, 0, att, from, to, f, (int64_t)g.below(1 << 20), (int64_t)g.below(256)};
        p.ops.push_back(o);
    }
}

static Plan musig_generate(uint64_t seed, int tier) {
    Rng g(seed);
    Plan p;
    int n = g.chance(1, 6) ? (int)g.range(1, (tier || g.chance(1, 3)) ? 16 : 8) : (int)g.range(2, 4);
    p.cfg["n"] = n;
    p.cfg["inseed"] = (int64_t)(g.next() >> 1);
    p.cfg["keyclass"] = g.chance(1, 2) ? 0 : (int64_t)g.below(4);
    p.cfg["sort"] = (int64_t)g.below(2);
    p.cfg["adaptor"] = g.chance(1, 3);
    p.cfg["naive"] = g.chance(1, 2);
    p.cfg["sloppy"] = g.chance(1, 3);
    p.cfg["comp"] = g.chance(1, 4);
    p.cfg["msgclass"] = g.chance(1, 8) ? (int64_t)g.range(1, 2) : 0;
    p.cfg["max_attempts"] = 5;
    int nt = g.chance(1, 3) ? 0 : (int)g.range(1, 6);
    for (int i = 0; i < nt; i++) { Op o; o.k = "tweak"; o.a = {(int64_t)g.below(2), g.chance(1, 10) ? (int64_t)g.range(1, 2) : 0}; p.ops.push_back(o); }
    for (int i = 0; i < n; i++) {
        Op o; o.k = "signer";
        static const int bits[3] = {32, 48, 56};
        o.a = {i, (int64_t)g.below(2), g.chance(1, 2) ? (int64_t)g.below(4) : 0, bits[g.below(3)], g.chance(3, 4), (int64_t)g.below(2)};
        p.ops.push_back(o);
    }
    // delays: a random subset of messages gets an explicit delay (reordering falls out of delays)
    int nd = (int)g.range(0, 6 + 3 * n);
    for (int i = 0; i < nd; i++) {
        Op o; o.k = "nd";
        int kind = (int)g.below(K_NKINDS - 1); int signer = (int)g.range(1, n);
        bool to_coord = (kind == K_PUBNONCE || kind == K_PSIG);
        o.a = {kind, 0, (int64_t)g.range(1, 3), to_coord ? signer : 0, to_coord ? 0 : signer, (int64_t)(g.chance(1, 8) ? g.range(100, 7000) : g.range(0, 40))};
        p.ops.push_back(o);
    }
    // in a quarter of the runs the set-up messages are slow, so nonces are requested before keys / message / tweaks are known
    if (g.chance(1, 4)) {
        for (int sgn = 1; sgn <= n; sgn++)
            for (int kind = K_KEYS; kind <= K_ADAPTOR; kind++)
                if (g.chance(2, 3)) { Op o; o.k = "nd"; o.a = {kind, 0, 1, 0, sgn, (int64_t)g.range(3, 60)}; p.ops.push_back(o); }
    }
    // swarm: some runs are fault free, some network-only, some crash-only, some both
    int mode = (int)g.below(8);
    if (mode >= 1) add_net_faults(g, p, n, 2, mode >= 5 ? (int)g.range(3, 10) : (int)g.range(1, 3));
    if (mode == 3 || mode >= 6) { int nc = (int)g.range(1, 2); for (int i = 0; i < nc; i++) { Op o; o.k = "crash"; o.a = {(int64_t)g.below(n + 1), (int64_t)g.range(1, 12 + 10 * n)}; p.ops.push_back(o); } }
    // frugal deployment: every call the header does not mark "not secp256k1_context_static" is made with the static context
    p.cfg["frugal"] = g.chance(1, 3);
    return p;
}

static void musig_execute(const Plan &p, const ExecOpts &, Result &r) {
    MusigSim w(p, r);
    w.run();
}

static const sim::World musig_world = {"musig", "C12", musig_generate, musig_execute};
SIM_REGISTER_WORLD(musig_world)

}  // namespace sim
