// World `store` (C07, scoped): a wallet node writes every artifact type to a simulated disk and later
// reloads, parses, verifies and *uses* what it reads back, under disk faults (bit rot, torn / short / lost
// writes, extension, misdirected reads) and allocator faults. The always-on monitors decide: sanitizer
// clean, no illegal/error callback reachable from stored bytes, returns in {0,1,NULL}, no leak on rejection.
#include "probes.h"
#include "../ref/ref.h"
#include <csetjmp>

namespace sim {
namespace {

enum ArtType { A_PUBKEY33, A_PUBKEY65, A_XONLY, A_ECDSA64, A_ECDSA_DER, A_RECSIG, A_SCHNORR, A_PUBNONCE, A_AGGNONCE, A_PSIG, A_ADAPTOR, A_OPENING,
               A_ELLSWIFT, A_HALFAGG, A_COMMIT, A_GENERATOR, A_RANGEPROOF, A_SURJECTION, A_WHITELIST, A_BPPP_GENS, A_NTYPES };
const char *const AN[] = {"pubkey33", "pubkey65", "xonly", "ecdsa64", "ecdsa_der", "recsig", "schnorr", "pubnonce", "aggnonce", "psig", "adaptor", "opening",
                          "ellswift", "halfagg", "commit", "generator", "rangeproof", "surjection", "whitelist", "bppp_gens"};
enum DiskFault { D_NONE, D_BITROT, D_TORN, D_SHORT, D_EXTEND, D_STALE, D_MISDIRECT, D_ZERO, D_FF, D_HDRBIT, D_TAILBIT, D_HDRSWEEP, D_NF };
const char *const DN[] = {"intact", "bitrot", "torn", "short", "extend", "stale", "misdirected", "zero_block", "ff_block", "header_bit", "trailer_bit", "header_sweep"};

Bytes artifact(const Fixtures &f, int t) {
    switch (t) {
        case A_PUBKEY33: return Bytes(f.pk33[1], f.pk33[1] + 33);
        case A_PUBKEY65: return Bytes(f.pk65[2], f.pk65[2] + 65);
        case A_XONLY: return Bytes(f.pk33[0] + 1, f.pk33[0] + 33);
        case A_ECDSA64: return Bytes(f.esig64, f.esig64 + 64);
        case A_ECDSA_DER: return Bytes(f.eder, f.eder + f.ederlen);
        case A_RECSIG: { Bytes b(f.rsig64, f.rsig64 + 64); b.push_back((uint8_t)f.recid); return b; }
        case A_SCHNORR: return Bytes(f.ssig, f.ssig + 64);
        case A_PUBNONCE: return Bytes(f.mu_pubnonce[1], f.mu_pubnonce[1] + 66);
        case A_AGGNONCE: return Bytes(f.mu_aggnonce, f.mu_aggnonce + 66);
        case A_PSIG: return Bytes(f.mu_psig[1], f.mu_psig[1] + 32);
        case A_ADAPTOR: return Bytes(f.ad_sig, f.ad_sig + 162);
        case A_OPENING: return Bytes(f.s2c_open33, f.s2c_open33 + 33);
        case A_ELLSWIFT: return Bytes(f.ell[0], f.ell[0] + 64);
        case A_HALFAGG: return Bytes(f.ha_agg, f.ha_agg + sizeof f.ha_agg);
        case A_COMMIT: return Bytes(f.commit33[1], f.commit33[1] + 33);
        case A_GENERATOR: return Bytes(f.gen33, f.gen33 + 33);
        case A_RANGEPROOF: return Bytes(f.rp_proof, f.rp_proof + f.rp_len);
        case A_SURJECTION: return Bytes(f.sj_proof, f.sj_proof + f.sj_len);
        case A_WHITELIST: return Bytes(f.wl_sig, f.wl_sig + f.wl_len);
        case A_BPPP_GENS: return Bytes(f.bp_gens, f.bp_gens + sizeof f.bp_gens);
    }
    return Bytes();
}

struct Use { Result &r; const secp256k1_context *ctx; const Fixtures &F; int t; bool intact; std::string what; int64_t alloc_fail; bool frugal; };

#define U01(expr) L01(expr)
// "must succeed on the intact record" round-trip expectation
void expect_intact(Use &u, int got, const char *api) {
    u.r.cmp();
    if (u.intact && !got) u.r.violate("C07", "intact_record_rejected", api, std::string(AN[u.t]) + ": the record read back intact but " + api + " returned 0");
}

// the reader may be a verify-only process: with `frugal` every call whose header does not say "not secp256k1_context_static" uses the static context
#define FC(api) frugal_ctx(u.frugal, ctx, api)
void consume(Use &u, const Bytes &rec) {
    const secp256k1_context *ctx = u.ctx; const Fixtures &F = u.F;
    Exact in(rec);
    switch (u.t) {
        case A_PUBKEY33: case A_PUBKEY65: {
            secp256k1_pubkey pk;
            int ok = U01(secp256k1_ec_pubkey_parse(FC("secp256k1_ec_pubkey_parse"), &pk, in.p, in.n)); expect_intact(u, ok, "secp256k1_ec_pubkey_parse");
            if (!ok) return;
            Buf o(65); size_t l = 65; U01(secp256k1_ec_pubkey_serialize(FC("secp256k1_ec_pubkey_serialize"), o.p(), &l, &pk, SECP256K1_EC_UNCOMPRESSED));
            secp256k1_pubkey t = pk; U01(secp256k1_ec_pubkey_tweak_add(FC("secp256k1_ec_pubkey_tweak_add"), &t, F.tweak)); t = pk; U01(secp256k1_ec_pubkey_tweak_mul(FC("secp256k1_ec_pubkey_tweak_mul"), &t, F.tweak)); t = pk; U01(secp256k1_ec_pubkey_negate(FC("secp256k1_ec_pubkey_negate"), &t));
            const secp256k1_pubkey *two[2] = {&pk, &F.pk[0]}; U01(secp256k1_ec_pubkey_combine(FC("secp256k1_ec_pubkey_combine"), &t, two, 2));
            (void)L(secp256k1_ec_pubkey_cmp(FC("secp256k1_ec_pubkey_cmp"), &pk, &F.pk[0]));
            U01(secp256k1_ecdsa_verify(FC("secp256k1_ecdsa_verify"), &F.esig, F.msg, &pk));
            Buf sh(32); U01(secp256k1_ecdh(FC("secp256k1_ecdh"), sh.p(), &pk, F.sk[0], NULL, NULL));
            secp256k1_xonly_pubkey x; int par; U01(secp256k1_xonly_pubkey_from_pubkey(FC("secp256k1_xonly_pubkey_from_pubkey"), &x, &par, &pk));
            Buf e(64); U01(secp256k1_ellswift_encode(FC("secp256k1_ellswift_encode"), e.p(), &pk, F.aux));
            const secp256k1_pubkey *ks[3] = {&F.pk[0], &pk, &F.pk[2]}; secp256k1_musig_keyagg_cache c; U01(secp256k1_musig_pubkey_agg(FC("secp256k1_musig_pubkey_agg"), NULL, &c, ks, 3));
            Buf a(162); uint8_t skc[32]; memcpy(skc, F.sk[0], 32); U01(secp256k1_ecdsa_adaptor_encrypt(FC("secp256k1_ecdsa_adaptor_encrypt"), a.p(), skc, &pk, F.msg, NULL, NULL));
            U01(secp256k1_ecdsa_adaptor_verify(FC("secp256k1_ecdsa_adaptor_verify"), F.ad_sig, &pk, F.msg, &F.pk[1]));
            break;
        }
        case A_XONLY: {
            if (in.n != 32) return;
            secp256k1_xonly_pubkey x;
            int ok = U01(secp256k1_xonly_pubkey_parse(FC("secp256k1_xonly_pubkey_parse"), &x, in.p)); expect_intact(u, ok, "secp256k1_xonly_pubkey_parse");
            if (!ok) return;
            int v = U01(secp256k1_schnorrsig_verify(FC("secp256k1_schnorrsig_verify"), F.ssig, F.msg, 32, &x)); expect_intact(u, v, "secp256k1_schnorrsig_verify");
            secp256k1_pubkey o; U01(secp256k1_xonly_pubkey_tweak_add(FC("secp256k1_xonly_pubkey_tweak_add"), &o, &x, F.tweak));
            Buf s(32); U01(secp256k1_xonly_pubkey_serialize(FC("secp256k1_xonly_pubkey_serialize"), s.p(), &x));
            U01(secp256k1_schnorrsig_aggverify(FC("secp256k1_schnorrsig_aggverify"), &x, F.ha_msgs, 1, F.ha_agg, 64));
            break;
        }
        case A_ECDSA64: {
            if (in.n != 64) return;
            secp256k1_ecdsa_signature s, n2;
            int ok = U01(secp256k1_ecdsa_signature_parse_compact(FC("secp256k1_ecdsa_signature_parse_compact"), &s, in.p)); expect_intact(u, ok, "secp256k1_ecdsa_signature_parse_compact");
            // a signature object left by a failed parse is usable too (it must simply never verify)
            int v = U01(secp256k1_ecdsa_verify(FC("secp256k1_ecdsa_verify"), &s, F.msg, &F.pk[0])); expect_intact(u, v, "secp256k1_ecdsa_verify");
            u.r.cmp(); if (!ok && v) u.r.violate("C07", "unparsed_object_verifies", "secp256k1_ecdsa_verify", "a signature object left by a failed parse verified");
            U01(secp256k1_ecdsa_signature_normalize(FC("secp256k1_ecdsa_signature_normalize"), &n2, &s));
            Buf d(72); size_t dl = 72; U01(secp256k1_ecdsa_signature_serialize_der(FC("secp256k1_ecdsa_signature_serialize_der"), d.p(), &dl, &s));
            Buf dk(32); U01(secp256k1_ecdsa_adaptor_recover(FC("secp256k1_ecdsa_adaptor_recover"), dk.p(), &s, F.ad_sig, &F.pk[1]));
            secp256k1_ecdsa_s2c_opening op; if (U01(secp256k1_ecdsa_s2c_opening_parse(FC("secp256k1_ecdsa_s2c_opening_parse"), &op, F.s2c_open33))) { U01(secp256k1_ecdsa_s2c_verify_commit(FC("secp256k1_ecdsa_s2c_verify_commit"), &s, F.s2c_data, &op)); U01(secp256k1_anti_exfil_host_verify(FC("secp256k1_anti_exfil_host_verify"), &s, F.msg, &F.pk[0], F.rho, &op)); }
            break;
        }
        case A_ECDSA_DER: {
            secp256k1_ecdsa_signature s;
            int ok = U01(secp256k1_ecdsa_signature_parse_der(FC("secp256k1_ecdsa_signature_parse_der"), &s, in.p, in.n)); expect_intact(u, ok, "secp256k1_ecdsa_signature_parse_der");
            int v = U01(secp256k1_ecdsa_verify(FC("secp256k1_ecdsa_verify"), &s, F.msg, &F.pk[0])); expect_intact(u, v, "secp256k1_ecdsa_verify");
            u.r.cmp(); if (!ok && v) u.r.violate("C07", "unparsed_object_verifies", "secp256k1_ecdsa_verify", "a signature object left by a failed DER parse verified");
            Buf c(64); U01(secp256k1_ecdsa_signature_serialize_compact(FC("secp256k1_ecdsa_signature_serialize_compact"), c.p(), &s));
            break;
        }
        case A_RECSIG: {
            if (in.n != 65) return;
            int recid = in.p[64];
            if (recid < 0 || recid > 3) { u.r.probe("recid_out_of_range_not_passed"); return; }   // recid is an API precondition (ARG_CHECK), the caller validates it
            secp256k1_ecdsa_recoverable_signature rs; secp256k1_pubkey pk; secp256k1_ecdsa_signature s;
            int ok = U01(secp256k1_ecdsa_recoverable_signature_parse_compact(FC("secp256k1_ecdsa_recoverable_signature_parse_compact"), &rs, in.p, recid)); expect_intact(u, ok, "secp256k1_ecdsa_recoverable_signature_parse_compact");
            if (!ok) return;
            int rc = U01(secp256k1_ecdsa_recover(FC("secp256k1_ecdsa_recover"), &pk, &rs, F.msg)); expect_intact(u, rc, "secp256k1_ecdsa_recover");
            U01(secp256k1_ecdsa_recoverable_signature_convert(FC("secp256k1_ecdsa_recoverable_signature_convert"), &s, &rs));
            if (rc) {
                Buf o(33); size_t l = 33; U01(secp256k1_ec_pubkey_serialize(FC("secp256k1_ec_pubkey_serialize"), o.p(), &l, &pk, SECP256K1_EC_COMPRESSED));
                // the header: a successful recovery "guarantees a correct signature" under the recovered key
                secp256k1_ecdsa_signature ns; U01(secp256k1_ecdsa_signature_normalize(FC("secp256k1_ecdsa_signature_normalize"), &ns, &s));
                int v = U01(secp256k1_ecdsa_verify(FC("secp256k1_ecdsa_verify"), &ns, F.msg, &pk));
                u.r.cmp();
                if (!v) u.r.violate("C07", "recovered_key_does_not_verify", "secp256k1_ecdsa_recover", "recover returned 1 for a stored recoverable signature (recid " + std::to_string(recid) + ") but the signature does not verify under the recovered key");
            }
            break;
        }
        case A_SCHNORR: {
            if (in.n != 64) return;
            int v = U01(secp256k1_schnorrsig_verify(FC("secp256k1_schnorrsig_verify"), in.p, F.msg, 32, &F.xpk[0])); expect_intact(u, v, "secp256k1_schnorrsig_verify");
            { const unsigned char *volatile nomsg = NULL; U01(secp256k1_schnorrsig_verify(FC("secp256k1_schnorrsig_verify"), in.p, nomsg, 0, &F.xpk[0])); }   // the empty message may be passed as (NULL, 0)
            Buf agg(64); size_t al = 64; U01(secp256k1_schnorrsig_aggregate(FC("secp256k1_schnorrsig_aggregate"), agg.p(), &al, &F.xpk[0], F.msg, in.p, 1));
            break;
        }
        case A_PUBNONCE: {
            if (in.n != 66) return;
            secp256k1_musig_pubnonce pn, other;
            int ok = U01(secp256k1_musig_pubnonce_parse(FC("secp256k1_musig_pubnonce_parse"), &pn, in.p)); expect_intact(u, ok, "secp256k1_musig_pubnonce_parse");
            if (!ok) return;
            Buf o(66); U01(secp256k1_musig_pubnonce_serialize(FC("secp256k1_musig_pubnonce_serialize"), o.p(), &pn));
            if (!U01(secp256k1_musig_pubnonce_parse(FC("secp256k1_musig_pubnonce_parse"), &other, F.mu_pubnonce[0]))) return;
            const secp256k1_musig_pubnonce *pp[2] = {&other, &pn}; secp256k1_musig_aggnonce an; U01(secp256k1_musig_nonce_agg(FC("secp256k1_musig_nonce_agg"), &an, pp, 2));
            Buf a(66); U01(secp256k1_musig_aggnonce_serialize(FC("secp256k1_musig_aggnonce_serialize"), a.p(), &an));
            break;
        }
        case A_AGGNONCE: case A_PSIG: {
            // verifier side of the fixture session with this one record read back from disk
            const secp256k1_pubkey *pks[3] = {&F.pk[0], &F.pk[1], &F.pk[2]};
            secp256k1_musig_keyagg_cache cache;
            if (!U01(secp256k1_musig_pubkey_agg(FC("secp256k1_musig_pubkey_agg"), NULL, &cache, pks, 3))) return;
            U01(secp256k1_musig_pubkey_ec_tweak_add(FC("secp256k1_musig_pubkey_ec_tweak_add"), NULL, &cache, F.mu_tweak_plain)); U01(secp256k1_musig_pubkey_xonly_tweak_add(FC("secp256k1_musig_pubkey_xonly_tweak_add"), NULL, &cache, F.mu_tweak_x));
            secp256k1_musig_aggnonce an; secp256k1_musig_session sess;
            const uint8_t *anb = u.t == A_AGGNONCE ? in.p : F.mu_aggnonce;
            if (u.t == A_AGGNONCE && in.n != 66) return;
            if (u.t == A_PSIG && in.n != 32) return;
            int ok = U01(secp256k1_musig_aggnonce_parse(FC("secp256k1_musig_aggnonce_parse"), &an, anb)); if (u.t == A_AGGNONCE) expect_intact(u, ok, "secp256k1_musig_aggnonce_parse");
            if (!ok) return;
            if (!U01(secp256k1_musig_nonce_process(FC("secp256k1_musig_nonce_process"), &sess, &an, F.msg, &cache, NULL))) return;
            secp256k1_musig_partial_sig ps; secp256k1_musig_pubnonce pn;
            int pok = U01(secp256k1_musig_partial_sig_parse(FC("secp256k1_musig_partial_sig_parse"), &ps, u.t == A_PSIG ? in.p : F.mu_psig[1])); if (u.t == A_PSIG) expect_intact(u, pok, "secp256k1_musig_partial_sig_parse");
            if (!pok || !U01(secp256k1_musig_pubnonce_parse(FC("secp256k1_musig_pubnonce_parse"), &pn, F.mu_pubnonce[1]))) return;
            int v = U01(secp256k1_musig_partial_sig_verify(FC("secp256k1_musig_partial_sig_verify"), &ps, &pn, &F.pk[1], &cache, &sess)); expect_intact(u, v, "secp256k1_musig_partial_sig_verify");
            const secp256k1_musig_partial_sig *pp[1] = {&ps}; Buf s64(64); U01(secp256k1_musig_partial_sig_agg(FC("secp256k1_musig_partial_sig_agg"), s64.p(), &sess, pp, 1));
            int par; U01(secp256k1_musig_nonce_parity(FC("secp256k1_musig_nonce_parity"), &par, &sess));
            break;
        }
        case A_ADAPTOR: {
            if (in.n != 162) return;
            int v = U01(secp256k1_ecdsa_adaptor_verify(FC("secp256k1_ecdsa_adaptor_verify"), in.p, &F.pk[0], F.msg, &F.pk[1])); expect_intact(u, v, "secp256k1_ecdsa_adaptor_verify");
            secp256k1_ecdsa_signature s; int d = U01(secp256k1_ecdsa_adaptor_decrypt(FC("secp256k1_ecdsa_adaptor_decrypt"), &s, F.sk[1], in.p)); expect_intact(u, d, "secp256k1_ecdsa_adaptor_decrypt");
            Buf dk(32); U01(secp256k1_ecdsa_adaptor_recover(FC("secp256k1_ecdsa_adaptor_recover"), dk.p(), &s, in.p, &F.pk[1]));
            secp256k1_ecdsa_signature fs; if (U01(secp256k1_ecdsa_signature_parse_compact(FC("secp256k1_ecdsa_signature_parse_compact"), &fs, F.ad_dec64))) { int rc = U01(secp256k1_ecdsa_adaptor_recover(FC("secp256k1_ecdsa_adaptor_recover"), dk.p(), &fs, in.p, &F.pk[1])); expect_intact(u, rc, "secp256k1_ecdsa_adaptor_recover"); }
            break;
        }
        case A_OPENING: {
            if (in.n != 33) return;
            secp256k1_ecdsa_s2c_opening op; secp256k1_ecdsa_signature s;
            int ok = U01(secp256k1_ecdsa_s2c_opening_parse(FC("secp256k1_ecdsa_s2c_opening_parse"), &op, in.p)); expect_intact(u, ok, "secp256k1_ecdsa_s2c_opening_parse");
            if (!ok || !U01(secp256k1_ecdsa_signature_parse_compact(FC("secp256k1_ecdsa_signature_parse_compact"), &s, F.s2c_sig64))) return;
            int v = U01(secp256k1_ecdsa_s2c_verify_commit(FC("secp256k1_ecdsa_s2c_verify_commit"), &s, F.s2c_data, &op)); expect_intact(u, v, "secp256k1_ecdsa_s2c_verify_commit");
            Buf o(33); U01(secp256k1_ecdsa_s2c_opening_serialize(FC("secp256k1_ecdsa_s2c_opening_serialize"), o.p(), &op));
            break;
        }
        case A_ELLSWIFT: {
            if (in.n != 64) return;
            secp256k1_pubkey pk; int ok = U01(secp256k1_ellswift_decode(FC("secp256k1_ellswift_decode"), &pk, in.p)); expect_intact(u, ok, "secp256k1_ellswift_decode");
            u.r.cmp(); if (!ok) u.r.violate("C07", "decode_failed", "secp256k1_ellswift_decode", "every 64-byte string must decode");
            Buf o(32); U01(secp256k1_ellswift_xdh(FC("secp256k1_ellswift_xdh"), o.p(), in.p, F.ell[1], F.sk[1], 1, secp256k1_ellswift_xdh_hash_function_bip324, NULL));
            Buf s(33); size_t l = 33; U01(secp256k1_ec_pubkey_serialize(FC("secp256k1_ec_pubkey_serialize"), s.p(), &l, &pk, SECP256K1_EC_COMPRESSED));
            break;
        }
        case A_HALFAGG: {
            // the verifier derives n from the length it was given, as the API requires (aggsig_len = 32*(n+1))
            size_t n = in.n / 32 ? in.n / 32 - 1 : 0;
            if (n > HA_N) n = HA_N;
            int v = in.n ? U01(secp256k1_schnorrsig_aggverify(FC("secp256k1_schnorrsig_aggverify"), F.ha_pks, F.ha_msgs, n, in.p, in.n)) : 0; expect_intact(u, v, "secp256k1_schnorrsig_aggverify");
            // and with the expected n, whatever the length
            if (in.n) U01(secp256k1_schnorrsig_aggverify(FC("secp256k1_schnorrsig_aggverify"), F.ha_pks, F.ha_msgs, HA_N, in.p, in.n));
            // resume incremental aggregation from the stored aggregate (n_before taken from the record length)
            if (in.n >= 32 && in.n % 32 == 0 && n < HA_N) { Buf b(32 * (HA_N + 1)); memcpy(b.p(), in.p, in.n); size_t l = 32 * (HA_N + 1); U01(secp256k1_schnorrsig_inc_aggregate(FC("secp256k1_schnorrsig_inc_aggregate"), b.p(), &l, F.ha_pks, F.ha_msgs, F.ha_sigs + 64 * n, n, HA_N - n)); }
            break;
        }
        case A_COMMIT: {
            if (in.n != 33) return;
            secp256k1_pedersen_commitment c, c0, c2;
            int ok = U01(secp256k1_pedersen_commitment_parse(FC("secp256k1_pedersen_commitment_parse"), &c, in.p)); expect_intact(u, ok, "secp256k1_pedersen_commitment_parse");
            if (!ok) return;
            Buf o(33); U01(secp256k1_pedersen_commitment_serialize(FC("secp256k1_pedersen_commitment_serialize"), o.p(), &c));
            if (!U01(secp256k1_pedersen_commitment_parse(FC("secp256k1_pedersen_commitment_parse"), &c0, F.commit33[0])) || !U01(secp256k1_pedersen_commitment_parse(FC("secp256k1_pedersen_commitment_parse"), &c2, F.commit33[2]))) return;
            const secp256k1_pedersen_commitment *pos[1] = {&c0}, *ng[2] = {&c, &c2};
            int t = U01(secp256k1_pedersen_verify_tally(FC("secp256k1_pedersen_verify_tally"), pos, 1, ng, 2)); expect_intact(u, t, "secp256k1_pedersen_verify_tally");
            uint64_t mn, mx; int v = U01(secp256k1_rangeproof_verify(FC("secp256k1_rangeproof_verify"), &mn, &mx, &c, F.rp_proof, F.rp_len, F.rp_extra, sizeof F.rp_extra, &F.gen)); expect_intact(u, v, "secp256k1_rangeproof_verify");
            break;
        }
        case A_GENERATOR: {
            if (in.n != 33) return;
            secp256k1_generator g;
            int ok = U01(secp256k1_generator_parse(FC("secp256k1_generator_parse"), &g, in.p)); expect_intact(u, ok, "secp256k1_generator_parse");
            if (!ok) return;
            Buf o(33); U01(secp256k1_generator_serialize(FC("secp256k1_generator_serialize"), o.p(), &g));
            secp256k1_pedersen_commitment c; U01(secp256k1_pedersen_commit(FC("secp256k1_pedersen_commit"), &c, F.blind[1], F.value[1], &g));
            uint64_t mn, mx; int v = U01(secp256k1_rangeproof_verify(FC("secp256k1_rangeproof_verify"), &mn, &mx, &F.commit[1], F.rp_proof, F.rp_len, F.rp_extra, sizeof F.rp_extra, &g)); expect_intact(u, v, "secp256k1_rangeproof_verify");
            { secp256k1_surjectionproof pr; if (U01(secp256k1_surjectionproof_parse(FC("secp256k1_surjectionproof_parse"), &pr, F.sj_proof, F.sj_len))) U01(secp256k1_surjectionproof_verify(FC("secp256k1_surjectionproof_verify"), &pr, F.sj_eph, SJ_INPUTS, &g)); }
            break;
        }
        case A_RANGEPROOF: {
            int ex, mant; uint64_t mn = 0, mx = 0;
            int inf = U01(secp256k1_rangeproof_info(FC("secp256k1_rangeproof_info"), &ex, &mant, &mn, &mx, in.p, in.n)); expect_intact(u, inf, "secp256k1_rangeproof_info");
            int v = U01(secp256k1_rangeproof_verify(FC("secp256k1_rangeproof_verify"), &mn, &mx, &F.commit[1], in.p, in.n, F.rp_extra, sizeof F.rp_extra, &F.gen)); expect_intact(u, v, "secp256k1_rangeproof_verify");
            Buf bo(32), mo(4096); uint64_t vo; size_t ol = 4096;
            int rw = U01(secp256k1_rangeproof_rewind(FC("secp256k1_rangeproof_rewind"), bo.p(), &vo, mo.p(), &ol, F.rp_nonce, &mn, &mx, &F.commit[1], in.p, in.n, F.rp_extra, sizeof F.rp_extra, &F.gen)); expect_intact(u, rw, "secp256k1_rangeproof_rewind");
            { Buf small(7); size_t sl = 7; U01(secp256k1_rangeproof_rewind(FC("secp256k1_rangeproof_rewind"), bo.p(), &vo, small.p(), &sl, F.rp_nonce, &mn, &mx, &F.commit[1], in.p, in.n, F.rp_extra, sizeof F.rp_extra, &F.gen)); }
            {   // every combination of the optional outputs the header allows, with the prover's nonce and with a wrong one
                unsigned char wrong[32]; memcpy(wrong, F.rp_nonce, 32); wrong[31] ^= 1;
                for (int wn = 0; wn < 2; wn++)
                    for (int mv = 0; mv < 3; mv++) {
                        Buf b2(32), m2(4096); uint64_t v2; size_t l2 = 4096;
                        int rr = U01(secp256k1_rangeproof_rewind(FC("secp256k1_rangeproof_rewind"), mv == 1 ? NULL : b2.p(), mv == 2 ? NULL : &v2, mv == 1 ? NULL : m2.p(), mv == 0 ? &l2 : NULL,
                                                                 wn ? wrong : F.rp_nonce, &mn, &mx, &F.commit[1], in.p, in.n, F.rp_extra, sizeof F.rp_extra, &F.gen));
                        if (rr != (wn ? 0 : rw) && u.r.ok) { u.r.violate("C07", "rewind_verdict_depends_on_optional_outputs", "secp256k1_rangeproof_rewind", std::string("rewind returned ") + std::to_string(rr) + " with optional outputs variant " + std::to_string(mv) + (wn ? " and a wrong nonce" : "") + ", " + std::to_string(rw) + " with all outputs"); return; }
                    }
            }
            U01(secp256k1_rangeproof_verify(FC("secp256k1_rangeproof_verify"), &mn, &mx, &F.commit[2], in.p, in.n, NULL, 0, &F.genb));
            break;
        }
        case A_SURJECTION: {
            secp256k1_surjectionproof pr;
            int ok = U01(secp256k1_surjectionproof_parse(FC("secp256k1_surjectionproof_parse"), &pr, in.p, in.n)); expect_intact(u, ok, "secp256k1_surjectionproof_parse");
            if (!ok) return;
            (void)L(secp256k1_surjectionproof_n_total_inputs(FC("secp256k1_surjectionproof_n_total_inputs"), &pr)); (void)L(secp256k1_surjectionproof_n_used_inputs(FC("secp256k1_surjectionproof_n_used_inputs"), &pr));
            size_t ss = L(secp256k1_surjectionproof_serialized_size(FC("secp256k1_surjectionproof_serialized_size"), &pr));
            Buf o(ss); size_t ol = ss; U01(secp256k1_surjectionproof_serialize(FC("secp256k1_surjectionproof_serialize"), o.p(), &ol, &pr));
            int v = U01(secp256k1_surjectionproof_verify(FC("secp256k1_surjectionproof_verify"), &pr, F.sj_eph, SJ_INPUTS, &F.sj_eph[SJ_INPUTS])); expect_intact(u, v, "secp256k1_surjectionproof_verify");
            break;
        }
        case A_WHITELIST: {
            secp256k1_whitelist_signature ws;
            int ok = U01(secp256k1_whitelist_signature_parse(FC("secp256k1_whitelist_signature_parse"), &ws, in.p, in.n)); expect_intact(u, ok, "secp256k1_whitelist_signature_parse");
            if (!ok) return;
            size_t nk = L(secp256k1_whitelist_signature_n_keys(&ws));
            Buf o(33 + 32 * nk); size_t ol = 33 + 32 * nk; U01(secp256k1_whitelist_signature_serialize(FC("secp256k1_whitelist_signature_serialize"), o.p(), &ol, &ws));
            // the verifier uses its own key list; a signature that claims another key count must simply be rejected
            int v = U01(secp256k1_whitelist_verify(FC("secp256k1_whitelist_verify"), &ws, F.wl_on, F.wl_off, WL_KEYS, &F.wl_sub)); expect_intact(u, v, "secp256k1_whitelist_verify");
            break;
        }
        case A_BPPP_GENS: {
            jmp_buf jb; volatile int aborted = 0;
            int64_t e0 = g_mon.error_count;
            uint64_t seq0 = g_mon.seq; int64_t inj0 = g_mon.fails_injected;
            if (u.alloc_fail >= 0) { g_mon.arm_fail(u.alloc_fail); g_mon.abort_target = &jb; }
            if (setjmp(jb) == 0) {
                secp256k1_bppp_generators *gs = L(secp256k1_bppp_generators_parse(FC("secp256k1_bppp_generators_parse"), in.p, in.n));
                u.r.cmp();
                if (u.intact && !gs && u.alloc_fail < 0) u.r.violate("C07", "intact_record_rejected", "secp256k1_bppp_generators_parse", "intact generator list rejected");
                if (gs) {
                    Buf o(in.n ? in.n : 1); size_t ol = in.n; U01(secp256k1_bppp_generators_serialize(FC("secp256k1_bppp_generators_serialize"), gs, o.p(), &ol));
                    L(secp256k1_bppp_generators_destroy(FC("secp256k1_bppp_generators_destroy"), gs));
                } else if (g_mon.fails_injected > inj0) u.r.probe("oom_handled_gracefully");
            } else aborted = 1;
            g_mon.abort_target = nullptr; g_mon.disarm_fail();
            if (u.alloc_fail >= 0) {
                int64_t d = g_mon.error_count - e0; u.r.expected_error += d;
                if (g_mon.fails_injected > inj0) { u.r.fault("alloc_fail"); u.r.cmp(); if (d != 1) u.r.violate("C07", "oom", "secp256k1_bppp_generators_parse", "allocation failure: error callback fired " + std::to_string(d) + " times"); }
                if (aborted) {   // the node aborted: the RAM it allocated during this call is gone
                    std::vector<void *> gone;
                    for (auto &b : g_mon.live) if (b.seq >= seq0) gone.push_back(b.p);
                    for (void *q : gone) free(q);
                }
            }
            break;
        }
    }
}

}  // namespace

#undef FC
static Plan store_generate(uint64_t seed, int tier) {
    Rng g(seed);
    Plan p;
    p.cfg["inseed"] = (int64_t)(g.next() >> 1);
    p.cfg["inseed2"] = (int64_t)(g.next() >> 1);
    int n = (int)g.range(4, tier ? 40 : 20);
    for (int i = 0; i < n; i++) {
        Op o; o.k = "rec";
        int t = (int)g.below(A_NTYPES);
        if (g.chance(1, 3)) { static const int big[] = {A_RANGEPROOF, A_SURJECTION, A_WHITELIST, A_HALFAGG, A_BPPP_GENS, A_ECDSA_DER, A_ADAPTOR}; t = big[g.below(7)]; }
        int f = g.chance(1, 8) ? D_NONE : (int)g.range(1, D_NF - 1);
        o.a = {t, f, (int64_t)g.below(1 << 20), (int64_t)g.below(1 << 20), (int64_t)g.below(A_NTYPES), t == A_BPPP_GENS && g.chance(1, 3) ? (int64_t)g.below(3) : -1};
        p.ops.push_back(o);
    }
    p.cfg["frugal"] = g.chance(1, 3);
    return p;
}

static void store_execute(const Plan &p, const ExecOpts &, Result &r) {
    secp256k1_context *ctx = L(secp256k1_context_create(SECP256K1_CONTEXT_NONE));
    static Fixtures fa, fb;
    if (!ctx || !build_fixtures(ctx, (uint64_t)p.c("inseed"), fa) || !build_fixtures(ctx, (uint64_t)p.c("inseed2"), fb)) {
        r.violate("C07", "fixture", "build_fixtures", "building valid artifacts failed: " + g_mon.last_illegal);
        if (ctx) L(secp256k1_context_destroy(ctx));
        monitors_epilogue(r, r.expected_illegal, r.expected_error);
        return;
    }
    if (p.c("frugal")) r.fault("reader_uses_static_context");
    for (const Op &o : p.ops) {
        if (!r.ok) break;
        if (o.k != "rec") continue;
        int t = (int)(((o.arg(0) % A_NTYPES) + A_NTYPES) % A_NTYPES), f = (int)(((o.arg(1) % D_NF) + D_NF) % D_NF);
        int64_t a1 = o.arg(2), a2 = o.arg(3);
        Bytes good = artifact(fa, t), other = artifact(fb, t);
        bool structural = false;
        if (t == A_ECDSA_DER && (o.arg(2) & 3) == 0) {
            // other well-formed records of the same type that a wallet may hold: placeholder signatures with one-octet
            // integers, and the longest form (33-octet integers with a leading zero)
            static const unsigned char tiny[3][8] = {{0x30, 0x06, 0x02, 0x01, 0x01, 0x02, 0x01, 0x01}, {0x30, 0x06, 0x02, 0x01, 0x00, 0x02, 0x01, 0x00}, {0x30, 0x06, 0x02, 0x01, 0x7f, 0x02, 0x01, 0x01}};
            int v = (int)((o.arg(2) >> 2) % 4);
            if (v < 3) good.assign(tiny[v], tiny[v] + 8);
            else { good.assign(72, 0xee); good[0] = 0x30; good[1] = 70; good[2] = 0x02; good[3] = 33; good[4] = 0x00; good[5] = 0x80; good[37] = 0x02; good[38] = 33; good[39] = 0x00; good[40] = 0x80; }
            structural = true;
        }
        Bytes rec = good;
        size_t n = good.size();
        switch (f) {
            case D_BITROT: { int k = 1 + (int)(a2 % 3); for (int i = 0; i < k && n; i++) { size_t bit = (size_t)((a1 + 7919 * i) % (int64_t)(8 * n)); rec[bit / 8] ^= (uint8_t)(1u << (bit % 8)); } } break;
            case D_TORN: { size_t cut = n ? (size_t)(a1 % (int64_t)n) : 0; rec.assign(good.begin(), good.begin() + cut); if (other.size() > cut) rec.insert(rec.end(), other.begin() + cut, other.end()); } break;
            case D_SHORT: rec.resize(n ? (size_t)(a1 % (int64_t)n) : 0); break;
            case D_EXTEND: { size_t k = 1 + (size_t)(a1 % 70); for (size_t i = 0; i < k; i++) rec.push_back((uint8_t)(a2 + 31 * i)); } break;
            case D_STALE: rec = other; break;
            case D_MISDIRECT: rec = artifact(fa, (int)(((o.arg(4) % A_NTYPES) + A_NTYPES) % A_NTYPES)); break;
            case D_ZERO: std::fill(rec.begin(), rec.end(), 0); break;
            case D_FF: std::fill(rec.begin(), rec.end(), 0xff); break;
            case D_HDRBIT: if (n) { size_t span = std::min<size_t>(n, 2 + (size_t)(a2 % 3)); size_t bit = (size_t)(a1 % (int64_t)(8 * span)); rec[bit / 8] ^= (uint8_t)(1u << (bit % 8)); } break;   // single-bit rot in the header bytes, where the structure is
            case D_TAILBIT: if (n) { size_t bit = (size_t)(a1 % 8); rec[n - 1] ^= (uint8_t)(1u << bit); } break;   // single-bit rot in the last byte (recovery ids, trailing scalars)
            default: break;
        }
        // header sweep: the same record is read back once per single-bit error in its first three bytes (where lengths, counts,
        // exponents and mantissas live) - every one of the up to 24 variants goes through the same parse / verify / use path
        std::vector<Bytes> variants;
        if (f == D_HDRSWEEP && n) { for (size_t bit = 0; bit < 8 * std::min<size_t>(n, 3); bit++) { Bytes v = good; v[bit / 8] ^= (uint8_t)(1u << (bit % 8)); variants.push_back(v); } }
        else variants.push_back(rec);
        for (size_t vi = 0; vi < variants.size() && r.ok; vi++) {
        rec = variants[vi];
        bool intact = rec == good && !structural;   // structural records parse but are not the wallet's own signature
        if (f != D_NONE && !intact) r.fault(std::string("disk.") + DN[f]);
        r.ev(std::string("read ") + AN[t] + " " + DN[f] + " len " + std::to_string(rec.size()) + " " + hex(rec).substr(0, 24));
        r.cover.insert(std::string("cell:") + AN[t] + ":" + DN[f]);
        Use u{r, ctx, fa, t, intact, "", o.arg(5, -1), p.c("frugal") != 0};
        int64_t ill0 = g_mon.illegal_count;
        size_t live0 = g_mon.live.size();
        consume(u, rec);
        r.cmp();
        if (r.ok && g_mon.illegal_count != ill0)
            r.violate("C07", "illegal_callback", g_mon.last_illegal, std::string("illegal-argument callback reached from a stored ") + AN[t] + " record (" + DN[f] + "): " + g_mon.last_illegal);
        if (r.ok && g_mon.live.size() != live0)
            r.violate("C07", "leak", AN[t], std::string("handling a ") + DN[f] + " " + AN[t] + " record left " + std::to_string(g_mon.live.size() - live0) + " allocated block(s) behind");
        }
    }
    L(secp256k1_context_destroy(ctx));
    monitors_epilogue(r, r.expected_illegal, r.expected_error);
}

static const World store_world = {"store", "C07", store_generate, store_execute};
SIM_REGISTER_WORLD(store_world)

}  // namespace sim
