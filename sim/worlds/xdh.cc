// World `xdh` (C18): pairs of peers run plain ECDH and ElligatorSwift (BIP-324 style) exchanges over a
// faulty network; every output is compared with the group-law model applied to what that peer received.
#include "../net.h"
#include "../seams.h"
#include "../ref/ref.h"
extern "C" {
#include <secp256k1.h>
#include <secp256k1_ecdh.h>
#include <secp256k1_ellswift.h>
}

namespace sim {
namespace {

enum { K_PUB, K_ELL, K_NK };
const char *const KN[] = {"PUB", "ELL"};
enum { H_DEFAULT, H_EXPLICIT, H_CUSTOM, H_FAILING, H_PREFIX, H_DELEG_PREFIX, H_DELEG_BIP324, H_TWOSTEP, H_NH };   // H_DELEG_*: a caller-supplied callback that hands over to the exported hash function   // ECDH: default(NULL)/sha256/custom/failing ; ellswift: bip324/prefix/custom/failing

struct HashCtl { int fail = 0; const unsigned char *salt; int calls = 0; };
int custom_ecdh(unsigned char *out, const unsigned char *x32, const unsigned char *y32, void *data) {
    HashCtl *c = (HashCtl *)data; c->calls++;
    if (c->fail) return 0;
    ref::Sha256 h; h.write(c->salt, 32); h.write(x32, 32); h.write(y32, 32); h.finish(out);
    return 1;
}
// a KDF-style hasher that produces its output in two blocks: the second block is derived after the first was written
int twostep_ecdh(unsigned char *out, const unsigned char *x32, const unsigned char *y32, void *data) {
    HashCtl *c = (HashCtl *)data; c->calls++;
    unsigned char h1[32], h2[32];
    { ref::Sha256 h; uint8_t t = 1; h.write(&t, 1); h.write(c->salt, 32); h.write(x32, 32); h.write(y32, 32); h.finish(h1); }
    memcpy(out, h1, 16);
    { ref::Sha256 h; uint8_t t = 2; h.write(&t, 1); h.write(c->salt, 32); h.write(x32, 32); h.write(y32, 32); h.finish(h2); }
    memcpy(out + 16, h2, 16);
    return 1;
}
int twostep_xdh(unsigned char *out, const unsigned char *x32, const unsigned char *a64, const unsigned char *b64, void *data) {
    HashCtl *c = (HashCtl *)data; c->calls++;
    unsigned char h1[32], h2[32];
    { ref::Sha256 h; uint8_t t = 1; h.write(&t, 1); h.write(c->salt, 32); h.write(x32, 32); h.write(a64, 64); h.finish(h1); }
    memcpy(out, h1, 16);
    { ref::Sha256 h; uint8_t t = 2; h.write(&t, 1); h.write(c->salt, 32); h.write(x32, 32); h.write(b64, 64); h.finish(h2); }
    memcpy(out + 16, h2, 16);
    return 1;
}
int custom_xdh(unsigned char *out, const unsigned char *x32, const unsigned char *a64, const unsigned char *b64, void *data) {
    HashCtl *c = (HashCtl *)data; c->calls++;
    if (c->fail) return 0;
    ref::Sha256 h; h.write(c->salt, 32); h.write(x32, 32); h.write(b64, 64); h.write(a64, 64); h.finish(out);
    return 1;
}

struct DelegCtl { const unsigned char *prefix; int which; };
int deleg_xdh(unsigned char *out, const unsigned char *x32, const unsigned char *a64, const unsigned char *b64, void *data) {
    DelegCtl *c = (DelegCtl *)data;
    return c->which == 0 ? secp256k1_ellswift_xdh_hash_function_prefix(out, x32, a64, b64, (void *)c->prefix)
                         : secp256k1_ellswift_xdh_hash_function_bip324(out, x32, a64, b64, NULL);
}

struct XdhSim {
    const Plan &p; Result &r; Net net;
    secp256k1_context *ctx = nullptr;
    uint64_t inseed = 0, draw = 0;
    int k = 1; bool use_static = false;
    struct Peer { uint8_t sk[32]; bool sk_valid = true; secp256k1_pubkey pk; ref::Pt pt; Bytes mine; bool done = false; int ret = -1; Bytes out; bool got_intact = false; int party = 0; };
    struct Sess { int mode = 0; int hasher = 0; int fmt[2] = {0, 0}; Peer peer[2]; uint8_t salt[32]; uint8_t prefix[64]; bool role_confusion = false; int create_via = 0; };
    std::vector<Sess> ss;
    uint8_t node_prefix[64] = {0x5c, 0x36};
    XdhSim(const Plan &p_, Result &r_) : p(p_), r(r_) {}
    void fresh32(uint8_t *out) { uint8_t b[16]; for (int i = 0; i < 8; i++) { b[i] = (uint8_t)(inseed >> (8 * i)); b[8 + i] = (uint8_t)(draw >> (8 * i)); } draw++; ref::sha256(b, 16, out); }
    const Op *find(const char *kname, int s, int who = -1) const { for (const Op &o : p.ops) if (o.k == kname && o.arg(0) == s && (who < 0 || o.arg(1) == who)) return &o; return nullptr; }

    void on_pub(const Msg &m) {
        int s = m.sid, me = m.to; if (s < 0 || s >= k) return;
        Sess &S = ss[s]; Peer &P = S.peer[me];
        if (P.done) return;
        secp256k1_pubkey peer;
        if (m.bytes.empty()) { r.probe("empty_record_dropped"); return; }   // nothing to hand to the parser (a NULL input pointer would be caller misuse)
        Exact rx(m.bytes);
        bool ok = L01(secp256k1_ec_pubkey_parse(frugal_ctx(use_static, ctx, "secp256k1_ec_pubkey_parse"), &peer, rx.p, rx.n));
        ref::Pt mp; bool mok = ref::parse_pubkey(m.bytes.data(), m.bytes.size(), &mp);
        r.cmp();
        if (ok != mok) { r.violate("C18", "parse", "secp256k1_ec_pubkey_parse", "library and model disagree on a received public key (" + std::to_string(m.bytes.size()) + " bytes) " + hex(m.bytes).substr(0, 70)); return; }
        if (!ok) { r.probe("peer_key_rejected"); return; }
        P.done = true; P.got_intact = m.intact();
        HashCtl ctl; ctl.salt = S.salt; ctl.fail = S.hasher == H_FAILING;
        Buf out(32);
        MonMark mk = mon_mark();
        int ret;
        if (S.hasher == H_DEFAULT) ret = L01(secp256k1_ecdh(frugal_ctx(use_static, ctx, "secp256k1_ecdh"), out.p(), &peer, P.sk, NULL, NULL));
        else if (S.hasher == H_EXPLICIT || S.hasher == H_PREFIX || S.hasher == H_DELEG_PREFIX || S.hasher == H_DELEG_BIP324) ret = L01(secp256k1_ecdh(frugal_ctx(use_static, ctx, "secp256k1_ecdh"), out.p(), &peer, P.sk, secp256k1_ecdh_hash_function_sha256, S.hasher == H_EXPLICIT ? (void *)node_prefix : NULL));
        else if (S.hasher == H_TWOSTEP) ret = L01(secp256k1_ecdh(frugal_ctx(use_static, ctx, "secp256k1_ecdh"), out.p(), &peer, P.sk, twostep_ecdh, &ctl));
        else ret = L01(secp256k1_ecdh(frugal_ctx(use_static, ctx, "secp256k1_ecdh"), out.p(), &peer, P.sk, custom_ecdh, &ctl));
        r.cmp();
        if (!mon_quiet_since(mk)) { r.violate("C18", "callback", "secp256k1_ecdh", "callback on valid arguments: " + g_mon.last_illegal); return; }
        bool expect = P.sk_valid && S.hasher != H_FAILING;
        if ((ret != 0) != expect) { r.violate("C18", "ecdh_result", "secp256k1_ecdh", std::string("ecdh returned ") + std::to_string(ret) + " with " + (P.sk_valid ? "a valid" : "an invalid") + " secret and a " + (S.hasher == H_FAILING ? "failing" : "working") + " hash callback"); return; }
        P.ret = ret;
        if (!ret) { r.probe(P.sk_valid ? "ecdh_hasher_failed" : "ecdh_invalid_secret"); return; }
        ref::Pt sh = ref::mul(ref::U256::from_be(P.sk), mp);
        uint8_t want[32];
        if (S.hasher == H_CUSTOM) { uint8_t x[32], y[32]; sh.x.to_be(x); sh.y.to_be(y); HashCtl c2; c2.salt = S.salt; custom_ecdh(want, x, y, &c2); }
        else if (S.hasher == H_TWOSTEP) { uint8_t x[32], y[32]; sh.x.to_be(x); sh.y.to_be(y); HashCtl c2; c2.salt = S.salt; twostep_ecdh(want, x, y, &c2); }
        else ref::ecdh_default_hash(sh, want);
        r.cmp();
        if (memcmp(out.p(), want, 32) != 0) { r.violate("C18", "ecdh_output", "secp256k1_ecdh", "output differs from hash(secret * PeerPoint) by the group law (peer key " + hex(m.bytes).substr(0, 66) + ")"); return; }
        P.out = out.bytes();
    }
    void on_ell(const Msg &m) {
        int s = m.sid, me = m.to; if (s < 0 || s >= k) return;
        Sess &S = ss[s]; Peer &P = S.peer[me];
        if (P.done || m.bytes.size() != 64) { if (m.bytes.size() != 64) r.probe("ell_wrong_length_dropped"); return; }
        P.done = true; P.got_intact = m.intact();
        // every 64-byte string decodes to a valid point equal to the ElligatorSwift map
        secp256k1_pubkey dec; uint8_t db[33], mb[33]; size_t l = 33;
        MonMark mk = mon_mark();
        int dok = L01(secp256k1_ellswift_decode(frugal_ctx(use_static, ctx, "secp256k1_ellswift_decode"), &dec, m.bytes.data()));
        int sok = dok && L01(secp256k1_ec_pubkey_serialize(ctx, db, &l, &dec, SECP256K1_EC_COMPRESSED));
        ref::Pt mp = ref::ellswift_decode(m.bytes.data());
        r.cmp();
        if (!dok || !sok || !mon_quiet_since(mk) || mp.inf) { r.violate("C18", "decode", "secp256k1_ellswift_decode", "decode failed on a 64-byte string " + hex(m.bytes)); return; }
        ref::ser33(mp, mb);
        if (memcmp(db, mb, 33) != 0) { r.violate("C18", "decode", "secp256k1_ellswift_decode", "decoded point differs from XSwiftEC(u, t) of the model for " + hex(m.bytes)); return; }
        { bool z = true, f = true; for (auto b : m.bytes) { if (b) z = false; if (b != 0xff) f = false; } if (z) r.probe("decode_u0_t0"); if (f) r.probe("decode_u_t_ge_p"); }
        int party = P.party;
        // "party: boolean indicating which party we are: zero if we are a, non-zero if we are b": B may pass any non-zero value
        static const int truthy[5] = {1, 2, 4, -1, 255};
        int party_arg = party ? truthy[(size_t)(S.salt[0] % 5)] : 0;
        if (party_arg != party) r.probe("party_b_passes_other_nonzero_value");
        const uint8_t *ea = party == 0 ? P.mine.data() : m.bytes.data(), *eb = party == 0 ? m.bytes.data() : P.mine.data();
        HashCtl ctl; ctl.salt = S.salt; ctl.fail = S.hasher == H_FAILING;
        Buf out(32);
        mk = mon_mark();
        int ret;
        // the BIP-324 hasher "ignores the data argument": half of these sessions hand it whatever the node's prefix buffer last held
        if (S.hasher == H_DEFAULT || S.hasher == H_EXPLICIT) ret = L01(secp256k1_ellswift_xdh(frugal_ctx(use_static, ctx, "secp256k1_ellswift_xdh"), out.p(), ea, eb, P.sk, party_arg, secp256k1_ellswift_xdh_hash_function_bip324, S.hasher == H_EXPLICIT ? (void *)node_prefix : NULL));
        else if (S.hasher == H_PREFIX) { memcpy(node_prefix, S.prefix, 64);   // the node keeps one buffer for the per-session prefix and refills it before each call
            ret = L01(secp256k1_ellswift_xdh(frugal_ctx(use_static, ctx, "secp256k1_ellswift_xdh"), out.p(), ea, eb, P.sk, party_arg, secp256k1_ellswift_xdh_hash_function_prefix, node_prefix)); }
        else if (S.hasher == H_DELEG_PREFIX || S.hasher == H_DELEG_BIP324) { DelegCtl dc{S.prefix, S.hasher == H_DELEG_BIP324};
            ret = L01(secp256k1_ellswift_xdh(frugal_ctx(use_static, ctx, "secp256k1_ellswift_xdh"), out.p(), ea, eb, P.sk, party_arg, deleg_xdh, &dc)); }
        else if (S.hasher == H_TWOSTEP) ret = L01(secp256k1_ellswift_xdh(frugal_ctx(use_static, ctx, "secp256k1_ellswift_xdh"), out.p(), ea, eb, P.sk, party_arg, twostep_xdh, &ctl));
        else ret = L01(secp256k1_ellswift_xdh(frugal_ctx(use_static, ctx, "secp256k1_ellswift_xdh"), out.p(), ea, eb, P.sk, party_arg, custom_xdh, &ctl));
        r.cmp();
        if (!mon_quiet_since(mk)) { r.violate("C18", "callback", "secp256k1_ellswift_xdh", "callback on valid arguments: " + g_mon.last_illegal); return; }
        bool expect = P.sk_valid && S.hasher != H_FAILING;
        if ((ret != 0) != expect) { r.violate("C18", "xdh_result", "secp256k1_ellswift_xdh", std::string("ellswift_xdh returned ") + std::to_string(ret) + " with " + (P.sk_valid ? "a valid" : "an invalid") + " secret and a " + (S.hasher == H_FAILING ? "failing" : "working") + " hash callback"); return; }
        P.ret = ret;
        if (!ret) { r.probe(P.sk_valid ? "xdh_hasher_failed" : "xdh_invalid_secret"); return; }
        ref::Pt sh = ref::mul(ref::U256::from_be(P.sk), mp);
        uint8_t x[32], want[32]; sh.x.to_be(x);
        if (S.hasher == H_DEFAULT || S.hasher == H_EXPLICIT || S.hasher == H_DELEG_BIP324) ref::bip324_hash(ea, eb, x, want);
        else if (S.hasher == H_PREFIX || S.hasher == H_DELEG_PREFIX) ref::prefix_hash(S.prefix, ea, eb, x, want);
        else if (S.hasher == H_TWOSTEP) { HashCtl c2; c2.salt = S.salt; twostep_xdh(want, x, ea, eb, &c2); }
        else { HashCtl c2; c2.salt = S.salt; custom_xdh(want, x, ea, eb, &c2); }
        r.cmp();
        if (memcmp(out.p(), want, 32) != 0) { r.violate("C18", "xdh_output", "secp256k1_ellswift_xdh", "output differs from hash(x(secret * Decode(theirs))) (received " + hex(m.bytes).substr(0, 40) + "..., party " + std::to_string(party) + ")"); return; }
        P.out = out.bytes();
    }
    void run() {
        inseed = (uint64_t)p.c("inseed");
        k = (int)std::max<int64_t>(1, std::min<int64_t>(4, p.c("sessions", 1)));
        use_static = p.c("static_ctx"); if (use_static) r.fault("peers_use_static_context");
        ctx = L(secp256k1_context_create(SECP256K1_CONTEXT_NONE));
        if (p.c("rand_ctx")) { uint8_t s[32]; fresh32(s); (void)L(secp256k1_context_randomize(ctx, s)); }
        if (p.c("comp")) L(secp256k1_context_set_sha256_compression(ctx, sim_model_compression));
        ss.resize(k);
        net.init(&p, &r, KN);
        net.on_deliver = [&](const Msg &m) { if (!r.ok) return; if (m.kind == K_PUB) on_pub(m); else on_ell(m); };
        for (int s = 0; s < k && r.ok; s++) {
            Sess &S = ss[s];
            const Op *cf = find("sess", s);
            if (cf) { S.mode = (int)(cf->arg(1) & 1); S.hasher = (int)(cf->arg(2) % H_NH); S.fmt[0] = (int)(cf->arg(3) % 3); S.fmt[1] = (int)(cf->arg(4) % 3); S.role_confusion = cf->arg(5) & 1; S.create_via = (int)(cf->arg(6) & 1); }
            fresh32(S.salt); fresh32(S.prefix); fresh32(S.prefix + 32);
            for (int w = 0; w < 2; w++) {
                Peer &P = S.peer[w];
                fresh32(P.sk); P.sk[0] &= 0x7f; P.sk[31] |= 1;
                const Op *kc = find("keyclass", s, w);
                if (kc) { int c = (int)(kc->arg(2) % 3); if (c == 0) { memset(P.sk, 0, 32); P.sk[31] = 1; } else if (c == 1) { ref::U256 v = ref::FN.neg(ref::U256(1)); v.to_be(P.sk); } else { memset(P.sk, 0, 32); P.sk[31] = 2; } }
                if (!L01(secp256k1_ec_pubkey_create(ctx, &P.pk, P.sk))) { r.violate("C18", "setup", "secp256k1_ec_pubkey_create", "setup failed"); break; }
                P.pt = ref::mulG(ref::U256::from_be(P.sk));
                P.party = S.role_confusion ? 0 : w;
                Msg o; o.sid = s; o.from = w; o.to = 1 - w;
                if (S.mode == 0) {
                    uint8_t b[65]; size_t l = S.fmt[w] == 0 ? 33 : 65;
                    L01(secp256k1_ec_pubkey_serialize(ctx, b, &l, &P.pk, S.fmt[w] == 0 ? SECP256K1_EC_COMPRESSED : SECP256K1_EC_UNCOMPRESSED));
                    if (S.fmt[w] == 2) b[0] = (b[64] & 1) ? 7 : 6;   // hybrid encoding of the same point
                    o.kind = K_PUB; o.bytes.assign(b, b + l);
                } else {
                    Buf ell(64); uint8_t aux[32]; fresh32(aux);
                    MonMark mk = mon_mark();
                    int ok = S.create_via == 0 ? L01(secp256k1_ellswift_create(ctx, ell.p(), P.sk, (w ^ s) & 1 ? aux : NULL)) : L01(secp256k1_ellswift_encode(ctx, ell.p(), &P.pk, aux));
                    r.cmp();
                    if (!ok || !mon_quiet_since(mk)) { r.violate("C18", "create", S.create_via ? "secp256k1_ellswift_encode" : "secp256k1_ellswift_create", "encoding a valid key failed"); break; }
                    // every encoding decodes back to its key, in the library and in the model
                    secp256k1_pubkey back; uint8_t bb[33], pb[33]; size_t l = 33;
                    L01(secp256k1_ellswift_decode(ctx, &back, ell.p())); L01(secp256k1_ec_pubkey_serialize(ctx, bb, &l, &back, SECP256K1_EC_COMPRESSED)); ref::ser33(P.pt, pb);
                    ref::Pt md = ref::ellswift_decode(ell.p());
                    r.cmp();
                    if (memcmp(bb, pb, 33) != 0 || !(md == P.pt)) { r.violate("C18", "roundtrip", S.create_via ? "secp256k1_ellswift_encode" : "secp256k1_ellswift_create", "an encoding does not decode back to its key (library " + hex(bb, 33) + ", key " + hex(pb, 33) + ")"); break; }
                    P.mine = ell.bytes();
                    o.kind = K_ELL; o.bytes = P.mine;
                }
                // the secret key record may read back erased between key generation and use
                const Op *kf = find("keyfault", s, w);
                if (kf) { memset(P.sk, (kf->arg(2) & 1) ? 0xff : 0x00, 32); P.sk_valid = false; r.fault("key_record_erased"); }
                net.send(o);
            }
        }
        bool capped = false;
        while (r.ok && net.step(&capped)) {}
        if (capped) r.violate("C18", "step_cap", "run", "step cap hit");
        // the two sides agree iff nothing was altered and the roles differ
        for (int s = 0; s < k && r.ok; s++) {
            Sess &S = ss[s]; Peer &A = S.peer[0], &B = S.peer[1];
            if (A.out.empty() || B.out.empty()) { if (!net.fault_sids.count(s) && A.sk_valid && B.sk_valid && S.hasher != H_FAILING) { r.cmp(); r.violate("C18", "liveness", "protocol", "session " + std::to_string(s) + " had no fault injected but produced no shared secret"); } continue; }
            bool clean = A.got_intact && B.got_intact;
            bool should_agree = clean && !(S.mode == 1 && S.role_confusion);
            r.cmp();
            if (should_agree && A.out != B.out) r.violate("C18", "disagreement", S.mode ? "secp256k1_ellswift_xdh" : "secp256k1_ecdh", "both parties received intact messages but derived different secrets");
            if (!should_agree && A.out == B.out && !(clean)) r.probe("agree_despite_alteration");
            if (S.mode == 1 && S.role_confusion && clean && A.out == B.out) r.violate("C18", "role_confusion_agrees", "secp256k1_ellswift_xdh", "both peers claimed the same role and still derived the same secret");
            if (should_agree) r.probe(S.mode ? "ellswift_agreed" : "ecdh_agreed");
        }
        if (ctx) L(secp256k1_context_destroy(ctx));
        monitors_epilogue(r, r.expected_illegal, r.expected_error);
    }
};

}  // namespace

static Plan xdh_generate(uint64_t seed, int) {
    Rng g(seed);
    Plan p;
    p.cfg["inseed"] = (int64_t)(g.next() >> 1);
    int k = (int)g.range(1, 4);
    p.cfg["sessions"] = k; p.cfg["rand_ctx"] = (int64_t)g.below(2); p.cfg["comp"] = g.chance(1, 4); p.cfg["static_ctx"] = g.chance(1, 3);
    for (int s = 0; s < k; s++) {
        Op o; o.k = "sess"; o.a = {s, (int64_t)g.below(2), (int64_t)g.below(H_NH), (int64_t)g.below(3), (int64_t)g.below(3), g.chance(1, 8), (int64_t)g.below(2)}; p.ops.push_back(o);
        for (int w = 0; w < 2; w++) {
            if (g.chance(1, 6)) { Op q; q.k = "keyclass"; q.a = {s, w, (int64_t)g.below(3)}; p.ops.push_back(q); }
            if (g.chance(1, 10)) { Op q; q.k = "keyfault"; q.a = {s, w, (int64_t)g.below(2)}; p.ops.push_back(q); }
        }
    }
    int mode = (int)g.below(5);
    if (mode >= 1) {
        int nf = (int)g.range(1, mode >= 3 ? 6 : 2);
        for (int i = 0; i < nf; i++) {
            Op o; o.k = "nf"; int from = (int)g.below(2); uint64_t w = g.below(100); int f;
            if (w < 5) f = NF_DROP; else if (w < 12) f = NF_DUP; else if (w < 40) f = NF_FLIP; else if (w < 55) f = NF_SET; else if (w < 65) f = NF_ZERO; else if (w < 75) f = NF_FF;
            else if (w < 79) f = NF_TRUNC; else if (w < 83) f = NF_EXT; else if (w < 90) f = NF_SPLICE; else f = NF_MISDELIVER;
            o.a = {(int64_t)g.below(K_NK), (int64_t)g.below(k), 0, from, 1 - from, f, (int64_t)g.below(1 << 16), (int64_t)g.below(256)};
            p.ops.push_back(o);
        }
    }
    return p;
}
static void xdh_execute(const Plan &p, const ExecOpts &, Result &r) { XdhSim w(p, r); w.run(); }
static const World xdh_world = {"xdh", "C18", xdh_generate, xdh_execute};
SIM_REGISTER_WORLD(xdh_world)

}  // namespace sim
