// World `sigsvc` (C01, failure/retry clause only): a signing service whose nonce source is the callback
// seam. The fault table (outcome sequences x key classes x entry points x context kinds) is covered
// completely in every run; keys, messages and extra data come from the seed.
#include "../core.h"
#include "../seams.h"
#include "../ref/ref.h"
extern "C" {
#include <secp256k1.h>
#include <secp256k1_recovery.h>
}

namespace sim {
namespace {

enum Outcome { O_PASS, O_PASS_NZ, O_FAIL, O_ZERO, O_OVER, O_SZERO, O_BAND };   // terminal: PASS, PASS_NZ, FAIL, BAND ; retrying: ZERO, OVER, SZERO
const char ON[] = "PpFZOSB";

struct Ctl {
    std::vector<int> seq;            // outcomes per attempt; beyond the end: pass through
    const unsigned char *extra;      // optional RFC 6979 extra data
    unsigned char ks[32];            // nonce that forces s == 0 for this key and message
    unsigned char kb[32];            // the caller's own nonce (BAND): the message is chosen so that the raw s lands on a boundary of the low-S rule
    const unsigned char *want_msg, *want_key;
    int calls = 0; bool counter_ok = true, args_ok = true;
};
int ctl_nonce(unsigned char *nonce32, const unsigned char *msg32, const unsigned char *key32, const unsigned char *algo16, void *data, unsigned int counter) {
    Ctl *c = (Ctl *)data;
    int a = c->calls++;
    if ((unsigned)a != counter) c->counter_ok = false;
    if (algo16 != NULL || memcmp(msg32, c->want_msg, 32) != 0 || memcmp(key32, c->want_key, 32) != 0) c->args_ok = false;
    int o = (size_t)a < c->seq.size() ? c->seq[a] : O_PASS;
    switch (o) {
        case O_FAIL: return 0;
        case O_ZERO: memset(nonce32, 0, 32); return 1;
        case O_OVER: memset(nonce32, 0xff, 32); return 1;
        case O_SZERO: memcpy(nonce32, c->ks, 32); return 1;
        case O_BAND: memcpy(nonce32, c->kb, 32); return 1;
        default: {
            int r = secp256k1_nonce_function_rfc6979(nonce32, msg32, key32, NULL, (void *)c->extra, counter);
            return (o == O_PASS_NZ && r) ? 7 : r;
        }
    }
}

}  // namespace

static Plan sigsvc_generate(uint64_t seed, int) {
    Rng g(seed);
    Plan p;
    p.cfg["inseed"] = (int64_t)(g.next() >> 1);
    p.cfg["model_mod"] = 7; p.cfg["model_off"] = (int64_t)g.below(7);   // which cells get the (slow) model signature comparison
    p.cfg["msgclass"] = (int64_t)g.below(4);
    p.cfg["extra"] = (int64_t)g.below(2);
    return p;
}

static void sigsvc_execute(const Plan &p, const ExecOpts &, Result &r) {
    uint64_t inseed = (uint64_t)p.c("inseed"), draw = 0;
    auto fresh32 = [&](uint8_t *out) { uint8_t b[16]; for (int i = 0; i < 8; i++) { b[i] = (uint8_t)(inseed >> (8 * i)); b[8 + i] = (uint8_t)(draw >> (8 * i)); } draw++; ref::sha256(b, 16, out); };
    secp256k1_context *ctxs[3];
    for (int i = 0; i < 3; i++) ctxs[i] = L(secp256k1_context_create(SECP256K1_CONTEXT_NONE));
    { uint8_t s[32]; fresh32(s); (void)L(secp256k1_context_randomize(ctxs[1], s)); }
    L(secp256k1_context_set_sha256_compression(ctxs[2], sim_model_compression));
    // outcome sequences: up to three retrying outcomes followed by a terminal one
    std::vector<std::vector<int>> seqs;
    static const int retry[3] = {O_ZERO, O_OVER, O_SZERO}, term[4] = {O_PASS, O_PASS_NZ, O_FAIL, O_BAND};
    for (int len = 0; len <= 3; len++) {
        int combos = 1; for (int i = 0; i < len; i++) combos *= 3;
        for (int c = 0; c < combos; c++)
            for (int t = 0; t < 4; t++) {
                std::vector<int> s; int x = c;
                for (int i = 0; i < len; i++) { s.push_back(retry[x % 3]); x /= 3; }
                s.push_back(term[t]);
                seqs.push_back(s);
            }
    }
    // long retry runs: a callback that keeps returning 1 with unusable nonces must be asked again until it delivers (or gives up itself)
    { static const int longs[6][3] = {{63, O_ZERO, O_PASS}, {64, O_OVER, O_PASS}, {65, O_SZERO, O_PASS}, {300, O_SZERO, O_BAND}, {1000, O_ZERO, O_PASS_NZ}, {257, O_OVER, O_FAIL}};
      for (auto &l : longs) { std::vector<int> s2((size_t)l[0], l[1]); s2.push_back(l[2]); seqs.push_back(s2); } }
    uint8_t keys[4][32];
    fresh32(keys[0]); keys[0][0] &= 0x7f; keys[0][31] |= 1;
    memset(keys[1], 0, 32); ref::FN.m.to_be(keys[2]); memset(keys[3], 0xff, 32);
    uint8_t extra[32]; fresh32(extra);
    const unsigned char *exp = p.c("extra") ? extra : NULL;
    int64_t cells = 0, model_cells = 0;
    secp256k1_ecdsa_signature prev_sig; secp256k1_ecdsa_recoverable_signature prev_rsig;
    { uint8_t m0[32]; fresh32(m0);
      if (!L01(secp256k1_ecdsa_sign(ctxs[0], &prev_sig, m0, keys[0], NULL, NULL)) || !L01(secp256k1_ecdsa_sign_recoverable(ctxs[0], &prev_rsig, m0, keys[0], NULL, NULL))) r.violate("C01", "setup", "secp256k1_ecdsa_sign", "setup signature failed"); }
    int mod = (int)std::max<int64_t>(1, p.c("model_mod", 7)), off = (int)p.c("model_off");
    for (size_t si = 0; si < seqs.size() && r.ok; si++)
        for (int kc = 0; kc < 4 && r.ok; kc++)
            for (int entry = 0; entry < 2 && r.ok; entry++)
                for (int cx = 0; cx < 3 && r.ok; cx++) {
                    cells++;
                    const std::vector<int> &seq = seqs[si];
                    secp256k1_context *ctx = ctxs[cx];
                    bool key_valid = kc == 0;
                    ref::U256 d_eff = key_valid ? ref::U256::from_be(keys[kc]) : ref::U256(1);   // the library continues with 1 for an invalid key
                    // message: from the class, or forced so that s == 0 with nonce ks
                    uint8_t msg[32]; fresh32(msg);
                    int mc = (int)p.c("msgclass");
                    if (mc == 1) memset(msg, 0xff, 32); else if (mc == 2) { ref::FN.m.to_be(msg); msg[31] += 2; } else if (mc == 3) memset(msg, 0, 32);
                    Ctl ctl; ctl.seq = seq; ctl.extra = exp; ctl.want_msg = msg; ctl.want_key = keys[kc];
                    bool has_s = false; for (int o : seq) if (o == O_SZERO) has_s = true;
                    fresh32(ctl.ks); ctl.ks[0] &= 0x7f; ctl.ks[31] |= 1;
                    if (has_s) {   // m = -r*d mod n  =>  s = k^-1 (m + r d) = 0
                        ref::Pt R = ref::mulG(ref::U256::from_be(ctl.ks));
                        ref::U256 rr = ref::FN.reduce(R.x);
                        ref::FN.neg(ref::FN.mul(rr, d_eff)).to_be(msg);
                    }
                    bool band = seq.back() == O_BAND;
                    fresh32(ctl.kb); ctl.kb[0] &= 0x7f; ctl.kb[31] |= 1;
                    if (band && !has_s) {   // m = T*k - r*d mod n  =>  raw s = T, a boundary of the low-S rule (both limb widths)
                        ref::U256 half1 = ref::FN.add(ref::HALF_N, ref::U256(1)), T;
                        switch ((cells + (int64_t)si + p.c("model_off")) % 8) {
                            case 0: T = half1; break;                                              // (n+1)/2: the smallest high value
                            case 1: T = ref::HALF_N; break;                                        // (n-1)/2: the largest low value
                            case 2: T = ref::FN.add(half1, ref::U256(0x01234567)); break;
                            case 3: T = ref::FN.add(ref::HALF_N, ref::U256(0x97E4DF5Full)); break; // low 32-bit limb of (n-1)/2 wraps
                            case 4: T = ref::FN.add(ref::HALF_N, ref::U256(0x100000000ull)); break;
                            case 5: { uint8_t b[32]; memset(b, 0xff, 32); b[0] = 0x7f; T = ref::U256::from_be(b); break; }   // 2^255 - 1
                            case 6: { uint8_t b[32] = {0x80}; T = ref::U256::from_be(b); break; }                            // 2^255
                            default: T = ref::FN.neg(ref::U256(1)); break;                                                   // n - 1
                        }
                        ref::U256 kk = ref::U256::from_be(ctl.kb);
                        ref::U256 rr = ref::FN.reduce(ref::mulG(kk).x);
                        ref::FN.sub(ref::FN.mul(T, kk), ref::FN.mul(rr, d_eff)).to_be(msg);
                        r.probe("raw_s_on_low_s_boundary");
                    }
                    // model of the loop
                    int exp_calls = 0; bool exp_ok = false; int win = -1;
                    for (size_t a = 0;; a++) {
                        int o = a < seq.size() ? seq[a] : O_PASS;
                        exp_calls++;
                        if (o == O_FAIL) break;
                        if (o == O_ZERO || o == O_OVER || o == O_SZERO) continue;
                        if (o == O_BAND && ref::FN.reduce(ref::U256::from_be(msg)) == ref::FN.neg(ref::FN.mul(ref::FN.reduce(ref::mulG(ref::U256::from_be(ctl.kb)).x), d_eff))) continue;   // s == 0 with this nonce too (never in practice)
                        win = (int)a; exp_ok = true; break;   // pass through: a valid RFC 6979 nonce (r, s != 0 with overwhelming probability)
                    }
                    bool exp_ret = exp_ok && key_valid;
                    std::string cell = std::string(1, "vz no"[kc == 0 ? 0 : kc == 1 ? 1 : kc == 2 ? 3 : 4]) + (entry ? "R" : "E") + std::to_string(cx) + ":";
                    if (seq.size() <= 4) { for (int o : seq) cell += ON[o]; }
                    else { cell += ON[seq[0]]; cell += "*" + std::to_string(seq.size() - 1); cell += ON[seq.back()]; }
                    // the call
                    uint8_t sig64[64]; int recid = -1; memset(sig64, 0xab, 64);
                    MonMark mk = mon_mark();
                    int ret;
                    // the caller reuses its signature objects: they still hold the previous valid signature when this call starts
                    secp256k1_ecdsa_signature sig = prev_sig; secp256k1_ecdsa_recoverable_signature rsig = prev_rsig;
                    if (entry == 0) { ret = L01(secp256k1_ecdsa_sign(ctx, &sig, msg, keys[kc], ctl_nonce, &ctl)); L01(secp256k1_ecdsa_signature_serialize_compact(ctx, sig64, &sig)); recid = 0; }
                    else { ret = L01(secp256k1_ecdsa_sign_recoverable(ctx, &rsig, msg, keys[kc], ctl_nonce, &ctl)); L01(secp256k1_ecdsa_recoverable_signature_serialize_compact(ctx, sig64, &recid, &rsig)); }
                    r.cmp();
                    const char *api = entry ? "secp256k1_ecdsa_sign_recoverable" : "secp256k1_ecdsa_sign";
                    for (int o : seq) if (o != O_PASS) { r.faults[std::string("nonce_cb.") + ON[o]]++; }
                    if (seq.size() > 4) r.probe("long_retry_run");
                    if (!key_valid || seq.size() > 1 || seq[0] != O_PASS) r.cover.insert("fcell:" + cell);
                    if (!key_valid) r.faults["invalid_key"]++;
                    if (!mon_quiet_since(mk)) { r.violate("C01", "callback", api, cell + ": illegal/error callback: " + g_mon.last_illegal); break; }
                    if ((ret != 0) != exp_ret) { r.violate("C01", "sign_result", api, cell + ": returned " + std::to_string(ret) + ", the model of the retry loop expects " + std::to_string(exp_ret)); break; }
                    if (ctl.calls != exp_calls || !ctl.counter_ok) { r.violate("C01", "retry_loop", api, cell + ": nonce callback invoked " + std::to_string(ctl.calls) + " times (expected " + std::to_string(exp_calls) + ")" + (ctl.counter_ok ? "" : ", counter argument is not the number of earlier attempts")); break; }
                    if (!ctl.args_ok) { r.violate("C01", "callback_args", api, cell + ": callback did not receive the caller's message/key (or a non-NULL algo16)"); break; }
                    r.ev(cell + " -> " + std::to_string(ret) + " calls " + std::to_string(ctl.calls) + " " + hex(sig64, 64).substr(0, 24) + " " + std::to_string(recid));
                    if (!ret) {
                        bool z = true; for (int i = 0; i < 64; i++) if (sig64[i]) z = false;
                        if (!z || recid != 0) { r.violate("C01", "not_zeroed", api, cell + ": signing failed but the signature is not all-zero" + (recid ? " (recid != 0)" : "")); break; }
                        continue;
                    }
                    // the verifying side of every other cell is a verify-only process: static context wherever the header allows it
                    // success: low-S, verifies, recovers; sampled cells also byte-equal to the model with the winning RFC 6979 nonce
                    secp256k1_pubkey pk, rec; secp256k1_ecdsa_signature s2;
                    int okp = L01(secp256k1_ec_pubkey_create(ctx, &pk, keys[kc]));
                    if (entry) L01(secp256k1_ecdsa_recoverable_signature_convert(frugal_ctx(cells & 1, ctx, "secp256k1_ecdsa_recoverable_signature_convert"), &s2, &rsig)); else s2 = sig;
                    int v = okp && L01(secp256k1_ecdsa_verify(frugal_ctx(cells & 1, ctx, "secp256k1_ecdsa_verify"), &s2, msg, &pk));
                    r.cmp();
                    if (!v) { r.violate("C01", "invalid_signature", api, cell + ": the retried signature does not verify (or is not low-S)"); break; }
                    if (entry) {
                        int rc = L01(secp256k1_ecdsa_recover(frugal_ctx(cells & 1, ctx, "secp256k1_ecdsa_recover"), &rec, &rsig, msg));
                        r.cmp();
                        if (!rc || memcmp(&rec, &pk, sizeof pk) != 0) { r.violate("C01", "recover", "secp256k1_ecdsa_recover", cell + ": recovery does not return the signer's public key"); break; }
                        // the other recovery ids (a damaged or guessed id): recovery either fails or returns a key under which the signature verifies
                        bool bad = false;
                        for (int rid2 = 0; rid2 < 4 && !bad; rid2++) {
                            if (rid2 == recid) continue;
                            secp256k1_ecdsa_recoverable_signature r2; secp256k1_pubkey q; secp256k1_ecdsa_signature c2;
                            if (!L01(secp256k1_ecdsa_recoverable_signature_parse_compact(frugal_ctx(cells & 1, ctx, "secp256k1_ecdsa_recoverable_signature_parse_compact"), &r2, sig64, rid2))) continue;
                            int rc2 = L01(secp256k1_ecdsa_recover(frugal_ctx(cells & 1, ctx, "secp256k1_ecdsa_recover"), &q, &r2, msg));
                            r.cmp();
                            if (rc2) {
                                L01(secp256k1_ecdsa_recoverable_signature_convert(frugal_ctx(cells & 1, ctx, "secp256k1_ecdsa_recoverable_signature_convert"), &c2, &r2));
                                if (!L01(secp256k1_ecdsa_verify(frugal_ctx(cells & 1, ctx, "secp256k1_ecdsa_verify"), &c2, msg, &q))) { r.violate("C01", "recover", "secp256k1_ecdsa_recover", cell + ": recovery id " + std::to_string(rid2) + " returned a key under which the signature does not verify"); bad = true; }
                                else r.probe("other_recid_recovers_valid_key");
                            }
                        }
                        if (bad) break;
                    }
                    if (win == 0 && seq[0] == O_PASS) {   // pass-through at attempt 0 == noncefp NULL
                        secp256k1_ecdsa_signature s3; uint8_t b3[64];
                        int r3 = L01(secp256k1_ecdsa_sign(ctx, &s3, msg, keys[kc], NULL, exp)); L01(secp256k1_ecdsa_signature_serialize_compact(ctx, b3, &s3));
                        r.cmp();
                        if (!r3 || memcmp(b3, sig64, 64) != 0) { r.violate("C01", "default_nonce_mismatch", api, cell + ": pass-through callback and noncefp == NULL give different signatures"); break; }
                    }
                    if (band || (int)(cells % mod) == off) {
                        model_cells++;
                        uint8_t k32[32], mr[32], ms[32]; int mrec = -1;
                        if (band) memcpy(k32, ctl.kb, 32); else
                        ref::rfc6979_nonce(keys[kc], msg, exp, nullptr, (unsigned)win, k32);
                        bool mok = ref::ecdsa_sign_nonce(d_eff, msg, k32, mr, ms, &mrec);
                        r.cmp();
                        if (!mok || memcmp(mr, sig64, 32) != 0 || memcmp(ms, sig64 + 32, 32) != 0 || (entry && mrec != recid)) {
                            r.violate("C01", "model_mismatch", api, cell + (band ? ": signature differs from the model for the caller's own nonce (raw s on a low-S boundary)" : ": signature differs from the model (RFC 6979 nonce #" + std::to_string(win) + " of key || msg mod n" + (exp ? " || extra" : "") + ")")); break;
                        }
                        ref::Pt P = ref::mulG(d_eff);
                        if (!ref::ecdsa_verify(P, msg, sig64, sig64 + 32)) { r.violate("C01", "invalid_signature", api, cell + ": signature invalid in the reference model"); break; }
                    }
                }
    r.probes["cells"] += cells; r.probes["model_checked_cells"] += model_cells;
    r.ev("cells " + std::to_string(cells));
    for (int i = 0; i < 3; i++) L(secp256k1_context_destroy(ctxs[i]));
    monitors_epilogue(r, r.expected_illegal, r.expected_error);
}

static const World sigsvc_world = {"sigsvc", "C01", sigsvc_generate, sigsvc_execute};
SIM_REGISTER_WORLD(sigsvc_world)

}  // namespace sim
