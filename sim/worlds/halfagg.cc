// World `halfagg` (C17): streaming half-aggregation. Signers emit (pk, msg, sig) triples, an aggregator
// extends a persisted running aggregate with whatever contiguous batch the delivery schedule gives it
// (capacity faults, crash/resume from the persisted bytes), a verifier checks the final aggregate.
#include "../net.h"
#include "../seams.h"
#include "../ref/ref.h"
extern "C" {
#include <secp256k1.h>
#include <secp256k1_extrakeys.h>
#include <secp256k1_schnorrsig.h>
#include <secp256k1_schnorrsig_halfagg.h>
}

namespace sim {
namespace {

enum { K_TRIPLE, K_NEED, K_AGG, K_LIST, K_NK };
const char *const KN[] = {"TRIPLE", "NEED", "AGG", "LIST"};
enum { F_NEGATE_S = NF_WORLD1, F_DROP_ENTRIES = NF_WORLD2 };

struct HalfaggSim {
    const Plan &p; Result &r; Net net;
    secp256k1_context *ctx = nullptr;
    uint64_t inseed = 0, draw = 0;
    int n = 3; bool sloppy = false, use_static = false;
    std::vector<ref::Triple> truth;         // what the signers produced
    // aggregator
    struct Agg {
        Disk disk;
        std::map<int, ref::Triple> buf;     // RAM: received triples by sequence number
        std::map<int, bool> buf_intact;
        std::vector<ref::Triple> used;      // triples folded into the aggregate so far (RAM mirror, rebuilt from disk)
        Bytes agg; int n = 0;               // RAM copy of persisted state
        int step = 0; int round = 0; bool sent_final = false; bool used_altered = false;
    } A;
    // two more aggregation sessions of the same node that share ONE work buffer and advance in lockstep with the main one
    struct Shadow { std::vector<ref::Triple> all, used; Bytes agg; };
    Shadow sh[2]; bool shadows = false; Buf *work = nullptr;
    bool verdict_seen = false;
    Bytes v_agg; bool have_agg = false, agg_intact = false; Bytes v_list; bool have_list = false, list_intact = false;

    HalfaggSim(const Plan &p_, Result &r_) : p(p_), r(r_) {}
    void fresh32(uint8_t *out) { uint8_t b[16]; for (int i = 0; i < 8; i++) { b[i] = (uint8_t)(inseed >> (8 * i)); b[8 + i] = (uint8_t)(draw >> (8 * i)); } draw++; ref::sha256(b, 16, out); }

    Bytes ser(const ref::Triple &t) { Bytes b(t.pk, t.pk + 32); b.insert(b.end(), t.msg, t.msg + 32); b.insert(b.end(), t.sig, t.sig + 64); return b; }

    void signer_send(int from_seq, int round) {
        for (int i = from_seq; i < n; i++) { Msg m; m.kind = K_TRIPLE; m.sid = i; m.attempt = round; m.from = 1; m.to = 0; m.bytes = ser(truth[i]); net.send(m); }
        if (n == 0 || from_seq >= n) { Msg m; m.kind = K_TRIPLE; m.sid = n; m.attempt = round; m.from = 1; m.to = 0; net.send(m); }   // empty marker: "that is all"
    }
    // ---------------------------------------------------------------- aggregator
    void agg_persist() {
        Bytes st{(uint8_t)A.n}; st.insert(st.end(), A.agg.begin(), A.agg.end());
        A.disk.write("agg", st);
        Bytes u; for (auto &t : A.used) { Bytes s = ser(t); u.insert(u.end(), s.begin(), s.end()); }
        A.disk.write("list", u);
        A.disk.sync();
    }
    bool agg_reload() {
        Bytes st, u;
        A.used.clear(); A.agg.clear(); A.n = 0;
        if (!A.disk.read("agg", &st) || st.empty()) return false;
        A.n = st[0]; A.agg.assign(st.begin() + 1, st.end());
        A.disk.read("list", &u);
        for (size_t i = 0; i + 128 <= u.size(); i += 128) { ref::Triple t; memcpy(t.pk, &u[i], 32); memcpy(t.msg, &u[i + 32], 32); memcpy(t.sig, &u[i + 64], 64); A.used.push_back(t); }
        return true;
    }
    int64_t capacity_for(int step, size_t need) {
        for (const Op &o : p.ops) if (o.k == "cap" && o.arg(0) == step) return std::max<int64_t>(0, o.arg(1));
        return (int64_t)need + 32 * (step % 3);   // exact or a little slack
    }
    // one library call extending the aggregate by the given new triples; returns success
    bool inc(const std::vector<ref::Triple> &news, int64_t cap, Bytes *out) {
        size_t ntot = A.used.size() + news.size();
        std::vector<secp256k1_xonly_pubkey> pks(ntot ? ntot : 1); Bytes msgs(32 * (ntot ? ntot : 1)), sigs(64 * (news.size() ? news.size() : 1));
        for (size_t i = 0; i < ntot; i++) {
            const ref::Triple &t = i < A.used.size() ? A.used[i] : news[i - A.used.size()];
            if (!L01(secp256k1_xonly_pubkey_parse(ctx, &pks[i], t.pk))) return false;   // careful mode never gets here; sloppy mode may
            memcpy(&msgs[32 * i], t.msg, 32);
        }
        for (size_t i = 0; i < news.size(); i++) memcpy(&sigs[64 * i], news[i].sig, 64);
        Buf buf((size_t)cap);
        if (!A.agg.empty()) memcpy(buf.p(), A.agg.data(), std::min<size_t>(A.agg.size(), (size_t)cap));
        Bytes before = buf.bytes();
        size_t len = (size_t)cap;
        MonMark mk = mon_mark();
        // the header allows NULL arrays when the corresponding count is zero
        bool nulls = p.c("nullptrs");
        const secp256k1_xonly_pubkey *pkp = (nulls && ntot == 0) ? NULL : pks.data();
        const unsigned char *msgp = (nulls && ntot == 0) ? NULL : msgs.data(), *sigp = (nulls && news.empty()) ? NULL : sigs.data();
        if (nulls && (ntot == 0 || news.empty())) r.probe("null_arrays_with_zero_count");
        int ok = L01(secp256k1_schnorrsig_inc_aggregate(frugal_ctx(use_static, ctx, "secp256k1_schnorrsig_inc_aggregate"), buf.p(), &len, pkp, msgp, sigp, A.used.size(), news.size()));
        r.cmp();
        if (!mon_quiet_since(mk)) { r.violate("C17", "callback", "secp256k1_schnorrsig_inc_aggregate", "callback on valid arguments: " + g_mon.last_illegal); return false; }
        if (!buf.intact()) { r.violate("C17", "overflow", "secp256k1_schnorrsig_inc_aggregate", "wrote outside the " + std::to_string(cap) + "-byte buffer"); return false; }
        bool enough = (size_t)cap >= 32 * (ntot + 1) && (A.agg.size() <= (size_t)cap);
        if ((ok != 0) != enough) { r.violate("C17", "capacity", "secp256k1_schnorrsig_inc_aggregate", "buffer of " + std::to_string(cap) + " bytes for n=" + std::to_string(ntot) + ": returned " + std::to_string(ok)); return false; }
        if (!ok) {
            r.fault("capacity_too_small"); if (buf.bytes() == before) r.probe("failed_call_left_buffer_intact"); else r.probe("failed_call_modified_buffer");
            // the caller's retry loop: same buffer, same length variable (whatever the failed call left in it) - it must fail again and stay inside the buffer
            if (len != (size_t)cap) r.probe("failed_call_changed_length_variable");
            mk = mon_mark();
            int ok2 = L01(secp256k1_schnorrsig_inc_aggregate(frugal_ctx(use_static, ctx, "secp256k1_schnorrsig_inc_aggregate"), buf.p(), &len, pkp, msgp, sigp, A.used.size(), news.size()));
            r.cmp();
            if (!buf.intact()) { r.violate("C17", "overflow", "secp256k1_schnorrsig_inc_aggregate", "the retry after a failed call wrote outside the " + std::to_string(cap) + "-byte buffer (length variable as the failed call left it)"); return false; }
            if (ok2 || !mon_quiet_since(mk)) { r.violate("C17", "capacity", "secp256k1_schnorrsig_inc_aggregate", "buffer of " + std::to_string(cap) + " bytes for n=" + std::to_string(ntot) + ": the retry with the same length variable returned " + std::to_string(ok2)); return false; }
            return false;
        }
        if (len != 32 * (ntot + 1)) { r.violate("C17", "length", "secp256k1_schnorrsig_inc_aggregate", "aggsig_len " + std::to_string(len) + " != 32*(n+1) for n=" + std::to_string(ntot)); return false; }
        out->assign(buf.p(), buf.p() + len);
        return true;
    }
    void shadow_step(size_t n_before, size_t n_new) {
        if (!shadows || !work) return;
        for (int k = 0; k < 2 && r.ok; k++) {
            Shadow &S = sh[k];
            if (S.used.size() != n_before || n_before + n_new > S.all.size()) continue;
            size_t ntot = n_before + n_new;
            std::vector<secp256k1_xonly_pubkey> pks(ntot ? ntot : 1); Bytes msgs(32 * (ntot ? ntot : 1)), sigs(64 * (n_new ? n_new : 1));
            bool okp = true;
            for (size_t i = 0; i < ntot; i++) { okp = okp && L01(secp256k1_xonly_pubkey_parse(ctx, &pks[i], S.all[i].pk)); memcpy(&msgs[32 * i], S.all[i].msg, 32); }
            for (size_t i = 0; i < n_new; i++) memcpy(&sigs[64 * i], S.all[n_before + i].sig, 64);
            if (!okp) return;
            // the session's persisted aggregate is copied into the shared work buffer, extended there, and copied out again
            memset(work->p(), 0xEE, work->n);
            if (!S.agg.empty()) memcpy(work->p(), S.agg.data(), S.agg.size());
            size_t len = work->n;
            MonMark mk = mon_mark();
            int ok = L01(secp256k1_schnorrsig_inc_aggregate(frugal_ctx(use_static, ctx, "secp256k1_schnorrsig_inc_aggregate"), work->p(), &len, pks.data(), msgs.data(), sigs.data(), n_before, n_new));
            r.cmp();
            if (!ok || !mon_quiet_since(mk) || len != 32 * (ntot + 1) || !work->intact()) { r.violate("C17", "shadow_session", "secp256k1_schnorrsig_inc_aggregate", "aggregation in the shared work buffer failed"); return; }
            for (size_t i = 0; i < n_new; i++) S.used.push_back(S.all[n_before + i]);
            S.agg.assign(work->p(), work->p() + len);
            Bytes mo; ref::halfagg_aggregate(S.used, &mo);
            if (mo != S.agg) { r.violate("C17", "incremental_mismatch", "secp256k1_schnorrsig_inc_aggregate", "session " + std::to_string(k + 2) + " of the same node (shared work buffer, n_before " + std::to_string(n_before) + ", n_new " + std::to_string(n_new) + "): aggregate differs from the model - the result depends on what the buffer was used for before"); return; }
            r.probe("shadow_steps");
        }
    }
    void agg_try_extend(bool allow_empty) {
        if (A.sent_final) return;
        // contiguous batch starting at the current count
        std::vector<ref::Triple> news; bool altered = false;
        for (int i = A.n; A.buf.count(i); i++) { news.push_back(A.buf[i]); altered = altered || !A.buf_intact[i]; }
        if (news.empty() && !allow_empty) return;
        A.step++;
        size_t need = 32 * (A.used.size() + news.size() + 1);
        int64_t cap = capacity_for(A.step, need);
        Bytes out;
        r.ev("aggregator: step " + std::to_string(A.step) + " n_before " + std::to_string(A.used.size()) + " n_new " + std::to_string(news.size()) + " cap " + std::to_string(cap));
        bool ok = inc(news, cap, &out);
        if (!r.ok) return;
        if (!ok) {
            // reload the persisted copy and retry with a large buffer: must succeed
            agg_reload();
            ok = inc(news, (int64_t)need + 64, &out);
            if (!r.ok) return;
            if (!ok) { if (!sloppy) r.violate("C17", "retry_failed", "secp256k1_schnorrsig_inc_aggregate", "retry from the persisted aggregate with a sufficient buffer failed"); return; }
        }
        for (auto &t : news) A.used.push_back(t);
        A.used_altered = A.used_altered || altered;
        A.agg = out; A.n = (int)A.used.size();
        for (int i = 0; i < A.n; i++) { A.buf.erase(i); }
        // refinement: bytes == model aggregation of exactly the triples used so far
        Bytes mo;
        ref::halfagg_aggregate(A.used, &mo);
        r.cmp();
        if (mo != A.agg) { r.violate("C17", "incremental_mismatch", "secp256k1_schnorrsig_inc_aggregate", "after step " + std::to_string(A.step) + " (n=" + std::to_string(A.n) + ", split point " + std::to_string(A.n - (int)news.size()) + ") aggregate " + hex(A.agg).substr(0, 48) + ".. != model " + hex(mo).substr(0, 48) + ".."); return; }
        r.cover.insert("split:" + std::to_string(A.n - (int)news.size()) + "+" + std::to_string(news.size()));
        { // the two extra sessions take the same batch in two halves, alternating on the shared buffer:
          // A(nb -> nb+h), B(nb -> nb+h), A(nb+h -> n), B(nb+h -> n)
          size_t nb = A.used.size() - news.size(), h = news.size() / 2;
          if (h) { shadow_step(nb, h); if (r.ok) shadow_step(nb + h, news.size() - h); }
          else shadow_step(nb, news.size());
          if (!r.ok) return; }
        agg_persist();
        if (A.n >= n) { agg_finish(); return; }
        // an explicitly planned empty batch (n_new = 0) right after this step
        for (const Op &o : p.ops) if (o.k == "empty" && o.arg(0) == A.step && r.ok && !A.sent_final) { r.fault("empty_batch"); agg_try_extend(true); break; }
    }
    void agg_finish() {
        A.sent_final = true;
        // one-shot aggregation over the whole sequence must give the same bytes
        { std::vector<secp256k1_xonly_pubkey> pks(A.n ? A.n : 1); Bytes msgs(32 * (A.n ? A.n : 1)), sigs(64 * (A.n ? A.n : 1));
          bool parse_ok = true;
          for (int i = 0; i < A.n; i++) { parse_ok = parse_ok && L01(secp256k1_xonly_pubkey_parse(ctx, &pks[i], A.used[i].pk)); memcpy(&msgs[32 * i], A.used[i].msg, 32); memcpy(&sigs[64 * i], A.used[i].sig, 64); }
          if (parse_ok) {
              Buf one(32 * (A.n + 1)); size_t ol = 32 * (A.n + 1);
              int ok = L01(secp256k1_schnorrsig_aggregate(frugal_ctx(use_static, ctx, "secp256k1_schnorrsig_aggregate"), one.p(), &ol, pks.data(), msgs.data(), sigs.data(), A.n));
              r.cmp();
              if (!ok || ol != 32 * (size_t)(A.n + 1) || one.bytes() != A.agg) { r.violate("C17", "oneshot_mismatch", "secp256k1_schnorrsig_aggregate", "one-shot aggregation differs from the incrementally built aggregate"); return; }
          } }
        Msg a; a.kind = K_AGG; a.from = 0; a.to = 2; a.bytes = A.agg; net.send(a);
        Msg l; l.kind = K_LIST; l.from = 0; l.to = 2;
        for (auto &t : A.used) { l.bytes.insert(l.bytes.end(), t.pk, t.pk + 32); l.bytes.insert(l.bytes.end(), t.msg, t.msg + 32); }
        net.send(l);
    }
    void agg_on(const Msg &m) {
        if (m.kind != K_TRIPLE || A.sent_final) return;
        if (m.bytes.empty()) { if (m.sid <= A.n) agg_try_extend(A.n >= n || m.sid == A.n); return; }
        if (m.bytes.size() != 128) return;
        int seq = m.sid;
        if (seq < A.n || A.buf.count(seq)) { r.probe("duplicate_triple_ignored"); return; }
        ref::Triple t; memcpy(t.pk, &m.bytes[0], 32); memcpy(t.msg, &m.bytes[32], 32); memcpy(t.sig, &m.bytes[64], 64);
        secp256k1_xonly_pubkey pk;
        int pok = L01(secp256k1_xonly_pubkey_parse(ctx, &pk, t.pk));
        int vok = pok && L01(secp256k1_schnorrsig_verify(ctx, t.sig, t.msg, 32, &pk));
        bool mv = ref::bip340_verify(t.pk, t.msg, 32, t.sig);
        r.cmp();
        if ((vok != 0) != mv) { r.violate("C17", "schnorr_verify", "secp256k1_schnorrsig_verify", "library and BIP-340 model disagree on a received triple"); return; }
        if (m.intact() && !vok) { r.violate("C17", "schnorr_verify", "secp256k1_schnorrsig_verify", "an honest signature does not verify"); return; }
        if (!vok && !sloppy) { r.probe("altered_triple_rejected"); return; }   // wait for a retransmission
        if (!vok) r.fault("sloppy_accepts_bad_triple");
        A.buf[seq] = t; A.buf_intact[seq] = m.intact();
        agg_try_extend(false);
    }
    void agg_reboot() {
        A.disk.crash(); A.buf.clear(); A.buf_intact.clear();
        bool was_final = A.sent_final;
        agg_reload();
        A.sent_final = false;
        r.ev("aggregator: rebooted with n=" + std::to_string(A.n));
        (void)was_final;
        if (A.n >= n && n > 0) { agg_finish(); return; }
        A.round++;
        Msg q; q.kind = K_NEED; q.sid = A.n; q.attempt = A.round; q.from = 0; q.to = 1; net.send(q);
        net.timer(0, 300, A.round);
    }
    // ---------------------------------------------------------------- verifier
    void ver_on(const Msg &m) {
        if (m.kind == K_AGG) { v_agg = m.bytes; have_agg = true; agg_intact = m.intact(); }
        if (m.kind == K_LIST) { v_list = m.bytes; have_list = true; list_intact = m.intact(); }
        if (!have_agg || !have_list) return;
        if (v_list.size() % 64 != 0) { r.probe("verifier_rejects_malformed_list"); return; }
        size_t k = v_list.size() / 64;
        std::vector<secp256k1_xonly_pubkey> pks(k ? k : 1); Bytes msgs(32 * (k ? k : 1));
        std::vector<std::array<uint8_t, 32>> mpk, mmsg;
        for (size_t i = 0; i < k; i++) {
            if (!L01(secp256k1_xonly_pubkey_parse(ctx, &pks[i], &v_list[64 * i]))) { r.probe("verifier_rejects_bad_key"); return; }
            memcpy(&msgs[32 * i], &v_list[64 * i + 32], 32);
            std::array<uint8_t, 32> a, b; memcpy(a.data(), &v_list[64 * i], 32); memcpy(b.data(), &v_list[64 * i + 32], 32); mpk.push_back(a); mmsg.push_back(b);
        }
        Exact ab(v_agg);   // exactly the bytes received: reading past them is an out-of-bounds read
        MonMark mk = mon_mark();
        bool vn = p.c("nullptrs") && k == 0;
        int v = v_agg.empty() ? 0 : L01(secp256k1_schnorrsig_aggverify(frugal_ctx(use_static, ctx, "secp256k1_schnorrsig_aggverify"), vn ? NULL : pks.data(), vn ? NULL : msgs.data(), k, ab.p, v_agg.size()));
        bool mv = !v_agg.empty() && ref::halfagg_verify(mpk, mmsg, v_agg.data(), v_agg.size());
        r.cmp();
        verdict_seen = true;
        if (!mon_quiet_since(mk)) { r.violate("C17", "callback", "secp256k1_schnorrsig_aggverify", "callback on received bytes: " + g_mon.last_illegal); return; }
        if ((v != 0) != mv) { r.violate("C17", "aggverify_mismatch", "secp256k1_schnorrsig_aggverify", "library verdict " + std::to_string(v) + " != specification verdict " + std::to_string(mv) + " (n=" + std::to_string(k) + ", len=" + std::to_string(v_agg.size()) + ")"); return; }
        bool honest = agg_intact && list_intact && !A.used_altered;
        if (honest && !v) { r.violate("C17", "completeness", "secp256k1_schnorrsig_aggverify", "aggregate of honest signatures rejected (n=" + std::to_string(k) + ")"); return; }
        if (!honest && v && k == 0) {
            // the faults produced the one statement that is valid without any signature: the empty list with its aggregate s = 0
            // (32 zero bytes). Library and specification agree that it verifies; nothing was forged.
            r.probe("empty_statement_accepted");
        } else if (!honest && v && !(agg_intact && list_intact)) {
            // altered bytes accepted: only legitimate if the alteration reproduced the honest bytes
            r.violate("C17", "soundness", "secp256k1_schnorrsig_aggverify", "altered aggregate or (key, message) list accepted"); return;
        }
        r.probe(v ? "verifier_accepts" : "verifier_rejects");
        r.ev(std::string("verifier: ") + (v ? "accept" : "reject"));
    }
    void run() {
        inseed = (uint64_t)p.c("inseed");
        n = (int)std::max<int64_t>(0, std::min<int64_t>(64, p.c("n", 3)));
        sloppy = p.c("sloppy"); use_static = p.c("static_ctx"); if (use_static) r.fault("nodes_use_static_context");
        int nk = (int)std::max<int64_t>(1, std::min<int64_t>(4, p.c("nkeys", 2)));
        ctx = L(secp256k1_context_create(SECP256K1_CONTEXT_NONE));
        if (p.c("comp")) L(secp256k1_context_set_sha256_compression(ctx, sim_model_compression));
        std::vector<secp256k1_keypair> kps(nk); std::vector<std::array<uint8_t, 32>> xs(nk);
        for (int i = 0; i < nk; i++) {
            uint8_t sk[32]; fresh32(sk); sk[0] &= 0x7f; sk[31] |= 1;
            secp256k1_xonly_pubkey x;
            if (!L01(secp256k1_keypair_create(ctx, &kps[i], sk)) || !L01(secp256k1_keypair_xonly_pub(ctx, &x, NULL, &kps[i])) || !L01(secp256k1_xonly_pubkey_serialize(ctx, xs[i].data(), &x))) { r.violate("C17", "setup", "keypair", "setup failed"); cleanup(); return; }
        }
        for (int i = 0; i < n; i++) {
            ref::Triple t; memcpy(t.pk, xs[i % nk].data(), 32); fresh32(t.msg);
            uint8_t aux[32]; fresh32(aux);
            if (!L01(secp256k1_schnorrsig_sign32(ctx, t.sig, t.msg, &kps[i % nk], aux))) { r.violate("C17", "setup", "secp256k1_schnorrsig_sign32", "signing failed"); cleanup(); return; }
            truth.push_back(t);
        }
        shadows = p.c("shadow") && n > 0;
        Buf workbuf(32 * (n + 2));
        work = &workbuf;
        for (int k = 0; k < 2 && shadows; k++)
            for (int i = 0; i < n; i++) {
                ref::Triple t; memcpy(t.pk, xs[(i + k + 1) % nk].data(), 32); fresh32(t.msg);
                if (!L01(secp256k1_schnorrsig_sign32(ctx, t.sig, t.msg, &kps[(i + k + 1) % nk], NULL))) { r.violate("C17", "setup", "secp256k1_schnorrsig_sign32", "signing failed"); cleanup(); return; }
                sh[k].all.push_back(t);
            }
        net.init(&p, &r, KN);
        net.on_deliver = [&](const Msg &m) { if (!r.ok) return; if (m.to == 0) agg_on(m); else if (m.to == 1) { if (m.kind == K_NEED) signer_send((int)std::min<int64_t>(std::max<int64_t>(0, m.sid), n), m.attempt); } else ver_on(m); };
        net.on_timer = [&](int, int tag) {
            if (!r.ok || A.sent_final || tag != A.round) return;
            if (A.round >= 6) return;
            A.round++;
            Msg q; q.kind = K_NEED; q.sid = A.n; q.attempt = A.round; q.from = 0; q.to = 1; net.send(q);
            net.timer(0, 300, A.round);
        };
        net.on_crash = [&](int) { if (r.ok) agg_reboot(); };
        net.world_fault = [&](int f, Msg &m, int64_t, int64_t) -> bool {
            // an artifact for another count: whole entries are missing from the end (aggregate for n-1 / n-2, list for n-1 / n-2)
            if (f == F_DROP_ENTRIES && (m.kind == K_AGG || m.kind == K_LIST)) {
                size_t unit = m.kind == K_AGG ? 32 : 64, j = 1 + (size_t)(m.bytes.size() / unit > 2 ? 1 : 0) * (size_t)(m.bytes.size() % 2);
                if (m.bytes.size() < unit * j || m.bytes.size() == 0) return false;
                m.bytes.resize(m.bytes.size() - unit * j);
                return true;
            }
            // a relay negates the aggregate scalar: (r_1..r_n, s) -> (r_1..r_n, n - s)
            if (f != F_NEGATE_S || m.kind != K_AGG || m.bytes.size() < 32 || m.bytes.size() % 32) return false;
            size_t off = m.bytes.size() - 32;
            ref::U256 sv = ref::U256::from_be(&m.bytes[off]);
            if (sv.is_zero() || !(sv < ref::FN.m)) return false;
            ref::FN.neg(sv).to_be(&m.bytes[off]);
            return true;
        };
        signer_send(0, 0);
        net.timer(0, 300, 0);
        bool capped = false;
        while (r.ok && net.step(&capped)) {}
        if (capped) r.violate("C17", "step_cap", "run", "step cap hit");
        if (r.ok && !verdict_seen) {
            r.cmp();
            bool faults_late = false;
            for (auto &kv : r.faults) if (kv.first == "crash" || kv.first.compare(0, 4, "net.") == 0) faults_late = true;
            if (!faults_late) r.violate("C17", "liveness", "protocol", "no verdict although no network fault was injected");
            else r.probe("no_verdict_under_faults");
        }
        cleanup();
    }
    void cleanup() { if (ctx) L(secp256k1_context_destroy(ctx)); ctx = nullptr; monitors_epilogue(r, r.expected_illegal, r.expected_error); }
};

}  // namespace

static Plan halfagg_generate(uint64_t seed, int tier) {
    Rng g(seed);
    Plan p;
    p.cfg["inseed"] = (int64_t)(g.next() >> 1);
    int n = g.chance(1, 10) ? 0 : (g.chance(1, 8) ? (int)g.range(13, tier ? 64 : 24) : (int)g.range(1, 12));
    p.cfg["n"] = n; p.cfg["nkeys"] = (int64_t)g.range(1, 4); p.cfg["sloppy"] = g.chance(1, 5); p.cfg["comp"] = g.chance(1, 5); p.cfg["shadow"] = g.chance(1, 3); p.cfg["nullptrs"] = g.chance(1, 2); p.cfg["static_ctx"] = g.chance(1, 3);
    // delivery schedule of the triples = the split of the incremental aggregation
    int style = (int)g.below(4);
    for (int i = 0; i < n; i++) {
        int64_t d = 1;
        if (style == 1) d = (int64_t)g.range(0, 40);              // arbitrary reordering
        else if (style == 2) d = (n - i) * 2;                     // reverse order: everything at once at the end
        else if (style == 3) d = (i / (int)g.range(1, 4)) * 5 + (int64_t)g.below(3);
        Op o; o.k = "nd"; o.a = {K_TRIPLE, i, 0, 1, 0, d}; p.ops.push_back(o);
    }
    if (g.chance(1, 4)) { Op o; o.k = "empty"; o.a = {(int64_t)g.range(1, 3)}; p.ops.push_back(o); }
    int ncap = (int)g.range(0, 3);
    for (int i = 0; i < ncap; i++) { Op o; o.k = "cap"; int64_t c = g.chance(1, 3) ? (int64_t)g.below(64) : (int64_t)g.below(32 * (n + 3)); o.a = {(int64_t)g.range(1, n + 1), c}; p.ops.push_back(o); }
    int mode = (int)g.below(6);
    if (mode >= 2) {
        int nf = (int)g.range(1, mode >= 4 ? 6 : 2);
        for (int i = 0; i < nf; i++) {
            Op o; o.k = "nf"; uint64_t w = g.below(100); int f;
            if (w < 10) f = NF_DROP; else if (w < 22) f = NF_DUP; else if (w < 50) f = NF_FLIP; else if (w < 58) f = NF_SET; else if (w < 64) f = NF_ZERO; else if (w < 69) f = NF_FF;
            else if (w < 77) f = NF_TRUNC; else if (w < 85) f = NF_EXT; else if (w < 92) f = NF_SPLICE; else f = NF_MISDELIVER;
            uint64_t kk = g.below(10);
            if (g.chance(1, 8)) { f = F_NEGATE_S; kk = 6; }
            else if (g.chance(1, 6)) { f = F_DROP_ENTRIES; kk = g.chance(2, 3) ? 6 : 9; }
            if (kk < 5) o.a = {K_TRIPLE, (int64_t)g.below(n + 1), 0, 1, 0, f, (int64_t)g.below(1 << 16), (int64_t)g.below(256)};
            else if (kk < 8) o.a = {K_AGG, 0, 0, 0, 2, f, (int64_t)g.below(1 << 16), (int64_t)g.below(256)};
            else o.a = {K_LIST, 0, 0, 0, 2, f, (int64_t)g.below(1 << 16), (int64_t)g.below(256)};
            p.ops.push_back(o);
        }
    }
    if (mode == 1 || mode >= 4) { int nc = (int)g.range(1, 2); for (int i = 0; i < nc; i++) { Op o; o.k = "crash"; o.a = {0, (int64_t)g.range(1, n + 3)}; p.ops.push_back(o); } }
    return p;
}
static void halfagg_execute(const Plan &p, const ExecOpts &, Result &r) { HalfaggSim w(p, r); w.run(); }
static const World halfagg_world = {"halfagg", "C17", halfagg_generate, halfagg_execute};
SIM_REGISTER_WORLD(halfagg_world)

}  // namespace sim
