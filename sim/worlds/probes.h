// Probe table: one closure per API family, each a short sequence of real library calls whose
// serialised outputs are recorded call by call. Used by the ctx world (C20).
#pragma once
#include "../core.h"
#include "../seams.h"
extern "C" {
#include <secp256k1.h>
#include <secp256k1_preallocated.h>
#include <secp256k1_extrakeys.h>
#include <secp256k1_schnorrsig.h>
#include <secp256k1_recovery.h>
#include <secp256k1_ecdh.h>
#include <secp256k1_ellswift.h>
#include <secp256k1_musig.h>
#include <secp256k1_ecdsa_adaptor.h>
#include <secp256k1_ecdsa_s2c.h>
#include <secp256k1_generator.h>
#include <secp256k1_rangeproof.h>
#include <secp256k1_surjectionproof.h>
#include <secp256k1_whitelist.h>
#include <secp256k1_schnorrsig_halfagg.h>
#include <secp256k1_bppp.h>
}

namespace sim {

struct CallRec {
    const char *api;
    int ret;
    int64_t ill;      // illegal-callback invocations during the call
    Bytes out;        // serialised outputs (empty if the callback fired: outputs are undefined then)
    bool misuse = false;   // the probe passed an invalid object on purpose: only the callback count is compared
};
struct ProbeRun {
    std::vector<CallRec> calls;
    bool stopped = false;   // static-context pass: stopped at the first illegal callback
};

enum { NKEYS = 4, WL_KEYS = 3, SJ_INPUTS = 3, HA_N = 3 };

struct Fixtures {
    unsigned char sk[NKEYS][32];
    secp256k1_pubkey pk[NKEYS];
    unsigned char pk33[NKEYS][33];
    unsigned char pk65[NKEYS][65];
    secp256k1_keypair kp[NKEYS];
    secp256k1_xonly_pubkey xpk[NKEYS];
    unsigned char msg[32], msg_hi[32], tweak[32], aux[32], extra[32], longmsg[300];
    secp256k1_ecdsa_signature esig; unsigned char esig64[64]; unsigned char eder[80]; size_t ederlen;
    secp256k1_ecdsa_recoverable_signature rsig; unsigned char rsig64[64]; int recid;
    unsigned char ssig[64], ssig_long[64];
    unsigned char ell[2][64];
    // musig (3 signers, keys 0..2)
    unsigned char mu_secrand[3][32];
    unsigned char mu_pubnonce[3][66], mu_aggnonce[66], mu_psig[3][32], mu_psig_ad[3][32], mu_sig[64], mu_presig[64];
    unsigned char mu_tweak_plain[32], mu_tweak_x[32];
    // adaptor
    unsigned char ad_sig[162]; unsigned char ad_dec64[64];
    // s2c / anti exfil
    unsigned char s2c_data[32], s2c_sig64[64], s2c_open33[33];
    unsigned char rho[32], rho_commit[32], ae_open33[33], ae_sig64[64];
    // generator / pedersen / rangeproof
    unsigned char gen_seed[32], gen_blind[32];
    secp256k1_generator gen, genb; unsigned char gen33[33];
    unsigned char blind[3][32]; uint64_t value[3];
    secp256k1_pedersen_commitment commit[3]; unsigned char commit33[3][33];
    unsigned char rp_nonce[32], rp_proof[5134]; size_t rp_len; unsigned char rp_msg[64]; unsigned char rp_extra[17];
    // surjection
    secp256k1_fixed_asset_tag sj_tags[SJ_INPUTS + 1]; unsigned char sj_bk[SJ_INPUTS + 1][32];
    secp256k1_generator sj_eph[SJ_INPUTS + 1]; unsigned char sj_seed[32];
    unsigned char sj_proof[SECP256K1_SURJECTIONPROOF_SERIALIZATION_BYTES_MAX]; size_t sj_len;
    // whitelist
    unsigned char wl_on_sk[WL_KEYS][32], wl_sum_sk[WL_KEYS][32], wl_sub_sk[32];
    secp256k1_pubkey wl_on[WL_KEYS], wl_off[WL_KEYS], wl_sub;
    unsigned char wl_sig[33 + 32 * WL_KEYS]; size_t wl_len;
    // half aggregation
    unsigned char ha_msgs[HA_N * 32], ha_sigs[HA_N * 64]; secp256k1_xonly_pubkey ha_pks[HA_N];
    unsigned char ha_agg[32 * (HA_N + 1)];
    // bppp
    unsigned char bp_gens[33 * 4];
    bool ok;
};

struct ProbeEnv {
    const secp256k1_context *ctx;
    const Fixtures *fx;
    ProbeRun *run;
    bool stop_on_illegal;
    // record one call; outs are (ptr,len) pairs appended when no callback fired
    bool call(const char *api, int ret, int64_t ill0, std::initializer_list<std::pair<const void *, size_t>> outs);
    void call_misuse(const char *api, int64_t ill0);   // deliberate caller misuse: illegal callback expected, return value and outputs undefined
};

typedef void (*ProbeFn)(ProbeEnv &);
struct Probe { const char *name; ProbeFn fn; };
const std::vector<Probe> &probe_table();
int api_id(const char *api);
const char *api_name(int id);

// Build the fixtures with a fully functional context; returns false if any step failed
bool build_fixtures(const secp256k1_context *ctx, uint64_t inseed, Fixtures &fx);

// counters incremented by the seam callbacks used inside probes
struct SeamCounters { int64_t compress_calls = 0, nonce_calls = 0, hash_calls = 0; };
extern SeamCounters g_seamc;
extern "C" void probe_compression(uint32_t *state, const unsigned char *blocks, size_t n);  // model's, counts, yields

std::string run_digest(const ProbeRun &r);   // compact text form for histories
bool same_run(const ProbeRun &a, const ProbeRun &b, std::string *diff);
int64_t misuse_callbacks(const ProbeRun &r);   // illegal callbacks provoked on purpose by the probe

}  // namespace sim
