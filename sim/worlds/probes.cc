#include "probes.h"
#include "../fiber.h"
#include "../ref/ref.h"
#include <cstdio>

namespace sim {

SeamCounters g_seamc;

extern "C" void probe_compression(uint32_t *state, const unsigned char *blocks, size_t n) {
    g_seamc.compress_calls++;
    if (n == 0 || blocks == NULL || state == NULL) { g_mon.compress_contract_violations++; return; }
    fiber_yield_point(-1);
    ref::sha256_compress(state, blocks, n);
}

static std::vector<std::string> &api_names() { static std::vector<std::string> v; return v; }
int api_id(const char *api) {
    auto &v = api_names();
    for (size_t i = 0; i < v.size(); i++) if (v[i] == api) return (int)i;
    v.push_back(api);
    return (int)v.size() - 1;
}
const char *api_name(int id) { auto &v = api_names(); return (id >= 0 && (size_t)id < v.size()) ? v[id].c_str() : "?"; }

bool ProbeEnv::call(const char *api, int ret, int64_t ill0, std::initializer_list<std::pair<const void *, size_t>> outs) {
    CallRec r;
    r.api = api; r.ret = ret; r.ill = g_mon.illegal_here() - ill0;
    if (r.ill == 0)
        for (auto &o : outs) r.out.insert(r.out.end(), (const uint8_t *)o.first, (const uint8_t *)o.first + o.second);
    run->calls.push_back(r);
    if (r.ill > 0 && stop_on_illegal) { run->stopped = true; return false; }
    return true;
}

void ProbeEnv::call_misuse(const char *api, int64_t ill0) {
    CallRec r; r.api = api; r.ret = 0; r.ill = g_mon.illegal_here() - ill0; r.misuse = true;
    run->calls.push_back(r);
}
int64_t misuse_callbacks(const ProbeRun &r) { int64_t n = 0; for (auto &c : r.calls) if (c.misuse) n += c.ill; return n; }

std::string run_digest(const ProbeRun &r) {
    std::string s;
    for (auto &c : r.calls) {
        char b[64];
        uint64_t h = fnv1a(c.out.data(), c.out.size());
        snprintf(b, sizeof b, "=%d/%lld/%zu:%08x ", c.ret, (long long)c.ill, c.out.size(), (unsigned)(h ^ (h >> 32)));
        s += c.api + 10;  // skip "secp256k1_"
        s += b;
    }
    if (r.stopped) s += "[stopped]";
    return s;
}
bool same_run(const ProbeRun &a, const ProbeRun &b, std::string *diff) {
    size_t n = std::min(a.calls.size(), b.calls.size());
    for (size_t i = 0; i < n; i++) {
        const CallRec &x = a.calls[i], &y = b.calls[i];
        if (x.misuse && y.misuse && std::string(x.api) == y.api && x.ill == y.ill) continue;
        if (std::string(x.api) != y.api || x.ret != y.ret || x.ill != y.ill || x.out != y.out) {
            if (diff) *diff = std::string("call ") + std::to_string(i) + " " + x.api + ": ret " + std::to_string(x.ret) + "/" + std::to_string(y.ret) +
                              " ill " + std::to_string(x.ill) + "/" + std::to_string(y.ill) + " out " + hex(x.out).substr(0, 64) + "/" + hex(y.out).substr(0, 64);
            return false;
        }
    }
    if (a.calls.size() != b.calls.size()) { if (diff) *diff = "different number of calls"; return false; }
    return true;
}

// ------------------------------------------------------------------ fixtures
static void valid_seckey(Rng &g, unsigned char *sk) {
    g.fill(sk, 32);
    sk[0] &= 0x7f;   // < n
    if (ref::U256::from_be(sk).is_zero()) sk[31] = 1;
}

#define FX(expr) do { if (!(L(expr))) return false; } while (0)

bool build_fixtures(const secp256k1_context *ctx, uint64_t inseed, Fixtures &fx) {
    memset(&fx, 0, sizeof fx);
    Rng g(inseed ^ 0x5eedf00dULL);
    size_t len;
    for (int i = 0; i < NKEYS; i++) {
        valid_seckey(g, fx.sk[i]);
        FX(secp256k1_ec_pubkey_create(ctx, &fx.pk[i], fx.sk[i]));
        len = 33; FX(secp256k1_ec_pubkey_serialize(ctx, fx.pk33[i], &len, &fx.pk[i], SECP256K1_EC_COMPRESSED));
        len = 65; FX(secp256k1_ec_pubkey_serialize(ctx, fx.pk65[i], &len, &fx.pk[i], SECP256K1_EC_UNCOMPRESSED));
        FX(secp256k1_keypair_create(ctx, &fx.kp[i], fx.sk[i]));
        FX(secp256k1_keypair_xonly_pub(ctx, &fx.xpk[i], NULL, &fx.kp[i]));
    }
    g.fill(fx.msg, 32); g.fill(fx.tweak, 32); fx.tweak[0] &= 0x7f; g.fill(fx.aux, 32); g.fill(fx.extra, 32); g.fill(fx.longmsg, 300);
    memset(fx.msg_hi, 0xff, 32); fx.msg_hi[31] = (unsigned char)g.below(256);  // >= n
    FX(secp256k1_ecdsa_sign(ctx, &fx.esig, fx.msg, fx.sk[0], NULL, NULL));
    FX(secp256k1_ecdsa_signature_serialize_compact(ctx, fx.esig64, &fx.esig));
    fx.ederlen = sizeof fx.eder; FX(secp256k1_ecdsa_signature_serialize_der(ctx, fx.eder, &fx.ederlen, &fx.esig));
    FX(secp256k1_ecdsa_sign_recoverable(ctx, &fx.rsig, fx.msg, fx.sk[0], NULL, NULL));
    FX(secp256k1_ecdsa_recoverable_signature_serialize_compact(ctx, fx.rsig64, &fx.recid, &fx.rsig));
    FX(secp256k1_schnorrsig_sign32(ctx, fx.ssig, fx.msg, &fx.kp[0], fx.aux));
    { secp256k1_schnorrsig_extraparams ep = SECP256K1_SCHNORRSIG_EXTRAPARAMS_INIT; ep.ndata = fx.aux;
      FX(secp256k1_schnorrsig_sign_custom(ctx, fx.ssig_long, fx.longmsg, 300, &fx.kp[0], &ep)); }
    for (int i = 0; i < 2; i++) FX(secp256k1_ellswift_create(ctx, fx.ell[i], fx.sk[i], fx.aux));
    // musig session with 3 signers, one plain and one x-only tweak, without and with adaptor (adaptor point = pk[3])
    {
        g.fill(fx.mu_tweak_plain, 32); fx.mu_tweak_plain[0] &= 0x7f; g.fill(fx.mu_tweak_x, 32); fx.mu_tweak_x[0] &= 0x7f;
        const secp256k1_pubkey *pks[3] = {&fx.pk[0], &fx.pk[1], &fx.pk[2]};
        secp256k1_musig_keyagg_cache cache; secp256k1_xonly_pubkey agg;
        FX(secp256k1_musig_pubkey_agg(ctx, &agg, &cache, pks, 3));
        FX(secp256k1_musig_pubkey_ec_tweak_add(ctx, NULL, &cache, fx.mu_tweak_plain));
        FX(secp256k1_musig_pubkey_xonly_tweak_add(ctx, NULL, &cache, fx.mu_tweak_x));
        for (int ad = 0; ad < 2; ad++) {
            secp256k1_musig_secnonce sn[3]; secp256k1_musig_pubnonce pn[3]; const secp256k1_musig_pubnonce *pnp[3];
            for (int i = 0; i < 3; i++) {
                if (ad == 0) { g.fill(fx.mu_secrand[i], 32); fx.mu_secrand[i][0] |= 1; }
                unsigned char sr[32]; memcpy(sr, fx.mu_secrand[i], 32);
                FX(secp256k1_musig_nonce_gen(ctx, &sn[i], &pn[i], sr, fx.sk[i], &fx.pk[i], fx.msg, &cache, fx.extra));
                FX(secp256k1_musig_pubnonce_serialize(ctx, fx.mu_pubnonce[i], &pn[i]));
                pnp[i] = &pn[i];
            }
            secp256k1_musig_aggnonce an; secp256k1_musig_session sess;
            FX(secp256k1_musig_nonce_agg(ctx, &an, pnp, 3));
            FX(secp256k1_musig_aggnonce_serialize(ctx, fx.mu_aggnonce, &an));
            FX(secp256k1_musig_nonce_process(ctx, &sess, &an, fx.msg, &cache, ad ? &fx.pk[3] : NULL));
            secp256k1_musig_partial_sig ps[3]; const secp256k1_musig_partial_sig *psp[3];
            for (int i = 0; i < 3; i++) {
                FX(secp256k1_musig_partial_sign(ctx, &ps[i], &sn[i], &fx.kp[i], &cache, &sess));
                FX(secp256k1_musig_partial_sig_serialize(ctx, ad ? fx.mu_psig_ad[i] : fx.mu_psig[i], &ps[i]));
                psp[i] = &ps[i];
            }
            FX(secp256k1_musig_partial_sig_agg(ctx, ad ? fx.mu_presig : fx.mu_sig, &sess, psp, 3));
        }
    }
    // adaptor: signer sk0, decryption key sk1 / encryption key pk1
    { unsigned char skc[32]; memcpy(skc, fx.sk[0], 32);
      FX(secp256k1_ecdsa_adaptor_encrypt(ctx, fx.ad_sig, skc, &fx.pk[1], fx.msg, NULL, NULL));
      secp256k1_ecdsa_signature s; FX(secp256k1_ecdsa_adaptor_decrypt(ctx, &s, fx.sk[1], fx.ad_sig));
      FX(secp256k1_ecdsa_signature_serialize_compact(ctx, fx.ad_dec64, &s)); }
    // s2c and anti-exfil
    { g.fill(fx.s2c_data, 32); secp256k1_ecdsa_signature s; secp256k1_ecdsa_s2c_opening op;
      FX(secp256k1_ecdsa_s2c_sign(ctx, &s, &op, fx.msg, fx.sk[0], fx.s2c_data));
      FX(secp256k1_ecdsa_signature_serialize_compact(ctx, fx.s2c_sig64, &s));
      FX(secp256k1_ecdsa_s2c_opening_serialize(ctx, fx.s2c_open33, &op));
      g.fill(fx.rho, 32);
      FX(secp256k1_ecdsa_anti_exfil_host_commit(ctx, fx.rho_commit, fx.rho));
      FX(secp256k1_ecdsa_anti_exfil_signer_commit(ctx, &op, fx.msg, fx.sk[0], fx.rho_commit));
      FX(secp256k1_ecdsa_s2c_opening_serialize(ctx, fx.ae_open33, &op));
      FX(secp256k1_anti_exfil_sign(ctx, &s, fx.msg, fx.sk[0], fx.rho));
      FX(secp256k1_ecdsa_signature_serialize_compact(ctx, fx.ae_sig64, &s)); }
    // generators, commitments: value[0] = value[1] + value[2], blinds balanced with blind_sum
    { g.fill(fx.gen_seed, 32); valid_seckey(g, fx.gen_blind);
      FX(secp256k1_generator_generate(ctx, &fx.gen, fx.gen_seed));
      FX(secp256k1_generator_generate_blinded(ctx, &fx.genb, fx.gen_seed, fx.gen_blind));
      FX(secp256k1_generator_serialize(ctx, fx.gen33, &fx.gen));
      fx.value[1] = g.below(1u << 30); fx.value[2] = g.below(1u << 30);
      if (((inseed >> 9) & 3) == 0) fx.value[1] = (inseed >> 11) & 1;   // a quarter of the runs: tiny value, i.e. the smallest proof shapes (1-bit mantissa)
      fx.value[0] = fx.value[1] + fx.value[2];
      valid_seckey(g, fx.blind[1]); valid_seckey(g, fx.blind[2]);
      const unsigned char *bl[2] = {fx.blind[1], fx.blind[2]};
      FX(secp256k1_pedersen_blind_sum(ctx, fx.blind[0], bl, 2, 2));
      for (int i = 0; i < 3; i++) {
          FX(secp256k1_pedersen_commit(ctx, &fx.commit[i], fx.blind[i], fx.value[i], &fx.gen));
          FX(secp256k1_pedersen_commitment_serialize(ctx, fx.commit33[i], &fx.commit[i]));
      }
      g.fill(fx.rp_nonce, 32); g.fill(fx.rp_msg, sizeof fx.rp_msg); g.fill(fx.rp_extra, sizeof fx.rp_extra);
      fx.rp_len = sizeof fx.rp_proof;
      { static const int mbits[4] = {0, 8, 32, 40};
        int rp_exp = (int)((inseed >> 3) % 4) - 1, rp_minbits = mbits[(inseed >> 5) % 4];   // proof shape varies with the run: public value, 1..3 digit exponents, ring counts
        size_t mlen = (rp_exp < 0 || fx.value[1] < 2) ? 0 : sizeof fx.rp_msg;   // the embedded message needs ring capacity 128*(rings-1)
        FX(secp256k1_rangeproof_sign(ctx, fx.rp_proof, &fx.rp_len, 0, &fx.commit[1], fx.blind[1], fx.rp_nonce, rp_exp, rp_minbits, fx.value[1], fx.rp_msg, mlen, fx.rp_extra, sizeof fx.rp_extra, &fx.gen)); } }
    // surjection: output tag equals input tag 1
    { for (int i = 0; i < SJ_INPUTS; i++) g.fill(fx.sj_tags[i].data, 32);
      fx.sj_tags[SJ_INPUTS] = fx.sj_tags[1];
      for (int i = 0; i <= SJ_INPUTS; i++) { valid_seckey(g, fx.sj_bk[i]); FX(secp256k1_generator_generate_blinded(ctx, &fx.sj_eph[i], fx.sj_tags[i].data, fx.sj_bk[i])); }
      g.fill(fx.sj_seed, 32);
      secp256k1_surjectionproof proof; size_t idx;
      memset(&proof, 0, sizeof proof);
      FX(secp256k1_surjectionproof_initialize(ctx, &proof, &idx, fx.sj_tags, SJ_INPUTS, 2, &fx.sj_tags[SJ_INPUTS], 100, fx.sj_seed));
      FX(secp256k1_surjectionproof_generate(ctx, &proof, fx.sj_eph, SJ_INPUTS, &fx.sj_eph[SJ_INPUTS], idx, fx.sj_bk[idx], fx.sj_bk[SJ_INPUTS]));
      fx.sj_len = sizeof fx.sj_proof;
      FX(secp256k1_surjectionproof_serialize(ctx, fx.sj_proof, &fx.sj_len, &proof)); }
    // whitelist
    { valid_seckey(g, fx.wl_sub_sk); FX(secp256k1_ec_pubkey_create(ctx, &fx.wl_sub, fx.wl_sub_sk));
      for (int i = 0; i < WL_KEYS; i++) {
          valid_seckey(g, fx.wl_on_sk[i]); FX(secp256k1_ec_pubkey_create(ctx, &fx.wl_on[i], fx.wl_on_sk[i]));
          valid_seckey(g, fx.wl_sum_sk[i]); FX(secp256k1_ec_pubkey_create(ctx, &fx.wl_off[i], fx.wl_sum_sk[i]));
          FX(secp256k1_ec_seckey_tweak_add(ctx, fx.wl_sum_sk[i], fx.wl_sub_sk));
      }
      secp256k1_whitelist_signature ws;
      memset(&ws, 0, sizeof ws);
      FX(secp256k1_whitelist_sign(ctx, &ws, fx.wl_on, fx.wl_off, WL_KEYS, &fx.wl_sub, fx.wl_on_sk[1], fx.wl_sum_sk[1], 1));
      fx.wl_len = sizeof fx.wl_sig;
      FX(secp256k1_whitelist_signature_serialize(ctx, fx.wl_sig, &fx.wl_len, &ws)); }
    // half aggregation
    { for (int i = 0; i < HA_N; i++) {
          g.fill(fx.ha_msgs + 32 * i, 32);
          FX(secp256k1_schnorrsig_sign32(ctx, fx.ha_sigs + 64 * i, fx.ha_msgs + 32 * i, &fx.kp[i], NULL));
          fx.ha_pks[i] = fx.xpk[i];
      }
      size_t al = sizeof fx.ha_agg;
      FX(secp256k1_schnorrsig_aggregate(ctx, fx.ha_agg, &al, fx.ha_pks, fx.ha_msgs, fx.ha_sigs, HA_N)); }
    // bppp generators
    { secp256k1_bppp_generators *gs = L(secp256k1_bppp_generators_create(ctx, 4));
      if (!gs) return false;
      size_t gl = sizeof fx.bp_gens;
      int r = L(secp256k1_bppp_generators_serialize(ctx, gs, fx.bp_gens, &gl));
      L(secp256k1_bppp_generators_destroy(ctx, gs));
      if (!r) return false; }
    fx.ok = true;
    return true;
}

}  // namespace sim
