// The probe closures. Outputs are always serialised forms held in locals of the running task.
#include "probes.h"
#include "../fiber.h"

namespace sim {

#define C(api, expr, ...) do { int64_t _i0 = g_mon.illegal_here(); g_cur_api_id = api_id(#api); int _r = (int)L(expr); \
    if (!e.call(#api, _r, _i0, {__VA_ARGS__})) return; } while (0)
#define O(p, n) std::make_pair((const void *)(p), (size_t)(n))
#define CTX e.ctx
#define F (*e.fx)

static void ser_pk(ProbeEnv &e, const secp256k1_pubkey *pk) {
    unsigned char b[33]; size_t l = 33;
    C(secp256k1_ec_pubkey_serialize, secp256k1_ec_pubkey_serialize(CTX, b, &l, pk, SECP256K1_EC_COMPRESSED), O(b, 33));
}

static void p_pubkey_create(ProbeEnv &e) {
    secp256k1_pubkey pk;
    C(secp256k1_ec_seckey_verify, secp256k1_ec_seckey_verify(CTX, F.sk[0]));
    C(secp256k1_ec_pubkey_create, secp256k1_ec_pubkey_create(CTX, &pk, F.sk[0]));
    ser_pk(e, &pk);
    C(secp256k1_ec_pubkey_create, secp256k1_ec_pubkey_create(CTX, &pk, F.sk[3]));
    ser_pk(e, &pk);
}
static void p_pubkey_edge(ProbeEnv &e) {
    // blinding invariant: n*G must not depend on the context's blinding state, probed on edge scalars
    static const unsigned char N1[32] = {0xff,0xff,0xff,0xff,0xff,0xff,0xff,0xff,0xff,0xff,0xff,0xff,0xff,0xff,0xff,0xfe,0xba,0xae,0xdc,0xe6,0xaf,0x48,0xa0,0x3b,0xbf,0xd2,0x5e,0x8c,0xd0,0x36,0x41,0x40};
    unsigned char k[4][32]; memset(k, 0, sizeof k);
    k[0][31] = 1; k[1][31] = 2; memcpy(k[2], N1, 32); memcpy(k[3], N1, 32); k[3][31] = 0x3f;
    for (int i = 0; i < 4; i++) { secp256k1_pubkey pk; C(secp256k1_ec_pubkey_create, secp256k1_ec_pubkey_create(CTX, &pk, k[i])); ser_pk(e, &pk); }
}
static void p_seckey_ops(ProbeEnv &e) {
    unsigned char k[32];
    memcpy(k, F.sk[1], 32); C(secp256k1_ec_seckey_negate, secp256k1_ec_seckey_negate(CTX, k), O(k, 32));
    memcpy(k, F.sk[1], 32); C(secp256k1_ec_seckey_tweak_add, secp256k1_ec_seckey_tweak_add(CTX, k, F.tweak), O(k, 32));
    memcpy(k, F.sk[1], 32); C(secp256k1_ec_seckey_tweak_mul, secp256k1_ec_seckey_tweak_mul(CTX, k, F.tweak), O(k, 32));
}
static void p_pubkey_ops(ProbeEnv &e) {
    secp256k1_pubkey pk;
    pk = F.pk[0]; C(secp256k1_ec_pubkey_negate, secp256k1_ec_pubkey_negate(CTX, &pk)); ser_pk(e, &pk);
    pk = F.pk[0]; C(secp256k1_ec_pubkey_tweak_add, secp256k1_ec_pubkey_tweak_add(CTX, &pk, F.tweak)); ser_pk(e, &pk);
    pk = F.pk[0]; C(secp256k1_ec_pubkey_tweak_mul, secp256k1_ec_pubkey_tweak_mul(CTX, &pk, F.tweak)); ser_pk(e, &pk);
    const secp256k1_pubkey *ins[3] = {&F.pk[0], &F.pk[1], &F.pk[2]};
    C(secp256k1_ec_pubkey_combine, secp256k1_ec_pubkey_combine(CTX, &pk, ins, 3)); ser_pk(e, &pk);
    C(secp256k1_ec_pubkey_cmp, secp256k1_ec_pubkey_cmp(CTX, &F.pk[0], &F.pk[1]));
    const secp256k1_pubkey *srt[4] = {&F.pk[2], &F.pk[0], &F.pk[3], &F.pk[1]};
    C(secp256k1_ec_pubkey_sort, secp256k1_ec_pubkey_sort(CTX, srt, 4));
    for (int i = 0; i < 4; i++) ser_pk(e, srt[i]);
}
static void p_pubkey_codec(ProbeEnv &e) {
    secp256k1_pubkey pk; unsigned char b[65]; size_t l = 65;
    C(secp256k1_ec_pubkey_parse, secp256k1_ec_pubkey_parse(CTX, &pk, F.pk33[1], 33));
    C(secp256k1_ec_pubkey_serialize, secp256k1_ec_pubkey_serialize(CTX, b, &l, &pk, SECP256K1_EC_UNCOMPRESSED), O(b, 65));
    C(secp256k1_ec_pubkey_parse, secp256k1_ec_pubkey_parse(CTX, &pk, F.pk65[2], 65));
    ser_pk(e, &pk);
}
static void ser_sig(ProbeEnv &e, const secp256k1_ecdsa_signature *s) {
    unsigned char b[64];
    C(secp256k1_ecdsa_signature_serialize_compact, secp256k1_ecdsa_signature_serialize_compact(CTX, b, s), O(b, 64));
}
static void p_ecdsa_sign(ProbeEnv &e) {
    secp256k1_ecdsa_signature s;
    C(secp256k1_ecdsa_sign, secp256k1_ecdsa_sign(CTX, &s, F.msg, F.sk[0], NULL, NULL)); ser_sig(e, &s);
    C(secp256k1_ecdsa_sign, secp256k1_ecdsa_sign(CTX, &s, F.msg_hi, F.sk[1], NULL, F.extra)); ser_sig(e, &s);
}
static void p_ecdsa_sign_rfc(ProbeEnv &e) {
    secp256k1_ecdsa_signature s;
    C(secp256k1_ecdsa_sign, secp256k1_ecdsa_sign(CTX, &s, F.msg, F.sk[2], secp256k1_nonce_function_rfc6979, F.extra)); ser_sig(e, &s);
}
static int custom_nonce(unsigned char *nonce32, const unsigned char *msg32, const unsigned char *key32, const unsigned char *, void *data, unsigned int counter) {
    g_seamc.nonce_calls++;
    fiber_yield_point(-2);
    for (int i = 0; i < 32; i++) nonce32[i] = msg32[i] ^ key32[31 - i] ^ ((const unsigned char *)data)[i];
    nonce32[0] &= 0x7f; nonce32[31] |= 1; nonce32[30] ^= (unsigned char)counter;
    return 1;
}
static void p_ecdsa_sign_custom(ProbeEnv &e) {
    secp256k1_ecdsa_signature s;
    C(secp256k1_ecdsa_sign, secp256k1_ecdsa_sign(CTX, &s, F.msg, F.sk[3], custom_nonce, F.extra)); ser_sig(e, &s);
}
static int retry_nonce(unsigned char *nonce32, const unsigned char *msg32, const unsigned char *key32, const unsigned char *algo16, void *data, unsigned int counter) {
    g_seamc.nonce_calls++;
    fiber_yield_point(-5);
    if (counter == 0) { memset(nonce32, 0, 32); return 1; }        // unusable: zero
    if (counter == 1) { memset(nonce32, 0xff, 32); return 1; }     // unusable: >= n
    return custom_nonce(nonce32, msg32, key32, algo16, data, counter);
}
static void p_ecdsa_sign_retry(ProbeEnv &e) {
    secp256k1_ecdsa_signature s; secp256k1_ecdsa_recoverable_signature rs; unsigned char b[64]; int recid = -1;
    C(secp256k1_ecdsa_sign, secp256k1_ecdsa_sign(CTX, &s, F.msg, F.sk[1], retry_nonce, F.extra)); ser_sig(e, &s);
    C(secp256k1_ecdsa_sign_recoverable, secp256k1_ecdsa_sign_recoverable(CTX, &rs, F.msg, F.sk[2], retry_nonce, F.extra));
    C(secp256k1_ecdsa_recoverable_signature_serialize_compact, secp256k1_ecdsa_recoverable_signature_serialize_compact(CTX, b, &recid, &rs), O(b, 64), O(&recid, sizeof recid));
}
static void p_ecdsa_verify(ProbeEnv &e) {
    secp256k1_ecdsa_signature s, n; unsigned char der[80]; size_t dl = 80;
    C(secp256k1_ecdsa_signature_parse_compact, secp256k1_ecdsa_signature_parse_compact(CTX, &s, F.esig64));
    C(secp256k1_ecdsa_verify, secp256k1_ecdsa_verify(CTX, &s, F.msg, &F.pk[0]));
    C(secp256k1_ecdsa_verify, secp256k1_ecdsa_verify(CTX, &s, F.msg, &F.pk[1]));
    C(secp256k1_ecdsa_signature_normalize, secp256k1_ecdsa_signature_normalize(CTX, &n, &s)); ser_sig(e, &n);
    C(secp256k1_ecdsa_signature_serialize_der, secp256k1_ecdsa_signature_serialize_der(CTX, der, &dl, &s), O(der, dl), O(&dl, sizeof dl));
    C(secp256k1_ecdsa_signature_parse_der, secp256k1_ecdsa_signature_parse_der(CTX, &n, F.eder, F.ederlen)); ser_sig(e, &n);
}
static void p_recoverable(ProbeEnv &e) {
    secp256k1_ecdsa_recoverable_signature rs; unsigned char b[64]; int recid = -1; secp256k1_pubkey pk; secp256k1_ecdsa_signature s;
    C(secp256k1_ecdsa_sign_recoverable, secp256k1_ecdsa_sign_recoverable(CTX, &rs, F.msg, F.sk[1], NULL, NULL));
    C(secp256k1_ecdsa_recoverable_signature_serialize_compact, secp256k1_ecdsa_recoverable_signature_serialize_compact(CTX, b, &recid, &rs), O(b, 64), O(&recid, sizeof recid));
}
static void p_recover(ProbeEnv &e) {
    secp256k1_ecdsa_recoverable_signature rs; secp256k1_pubkey pk; secp256k1_ecdsa_signature s;
    C(secp256k1_ecdsa_recoverable_signature_parse_compact, secp256k1_ecdsa_recoverable_signature_parse_compact(CTX, &rs, F.rsig64, F.recid));
    C(secp256k1_ecdsa_recover, secp256k1_ecdsa_recover(CTX, &pk, &rs, F.msg)); ser_pk(e, &pk);
    C(secp256k1_ecdsa_recoverable_signature_convert, secp256k1_ecdsa_recoverable_signature_convert(CTX, &s, &rs)); ser_sig(e, &s);
}
static void p_keypair(ProbeEnv &e) {
    secp256k1_keypair kp; unsigned char sk[32]; secp256k1_pubkey pk; secp256k1_xonly_pubkey x; int par = -1; unsigned char xb[32];
    C(secp256k1_keypair_create, secp256k1_keypair_create(CTX, &kp, F.sk[2]));
    C(secp256k1_keypair_sec, secp256k1_keypair_sec(CTX, sk, &kp), O(sk, 32));
    C(secp256k1_keypair_pub, secp256k1_keypair_pub(CTX, &pk, &kp)); ser_pk(e, &pk);
    C(secp256k1_keypair_xonly_pub, secp256k1_keypair_xonly_pub(CTX, &x, &par, &kp), O(&par, sizeof par));
    C(secp256k1_xonly_pubkey_serialize, secp256k1_xonly_pubkey_serialize(CTX, xb, &x), O(xb, 32));
}
static void p_keypair_tweak(ProbeEnv &e) {
    secp256k1_keypair kp = F.kp[1]; unsigned char sk[32]; secp256k1_pubkey pk;
    C(secp256k1_keypair_xonly_tweak_add, secp256k1_keypair_xonly_tweak_add(CTX, &kp, F.tweak));
    C(secp256k1_keypair_sec, secp256k1_keypair_sec(CTX, sk, &kp), O(sk, 32));
    C(secp256k1_keypair_pub, secp256k1_keypair_pub(CTX, &pk, &kp)); ser_pk(e, &pk);
}
static void p_xonly(ProbeEnv &e) {
    secp256k1_xonly_pubkey x, y; int par = -1; unsigned char xb[32]; secp256k1_pubkey out;
    C(secp256k1_xonly_pubkey_from_pubkey, secp256k1_xonly_pubkey_from_pubkey(CTX, &x, &par, &F.pk[1]), O(&par, sizeof par));
    C(secp256k1_xonly_pubkey_serialize, secp256k1_xonly_pubkey_serialize(CTX, xb, &x), O(xb, 32));
    C(secp256k1_xonly_pubkey_parse, secp256k1_xonly_pubkey_parse(CTX, &y, xb));
    C(secp256k1_xonly_pubkey_cmp, secp256k1_xonly_pubkey_cmp(CTX, &x, &F.xpk[2]));
    C(secp256k1_xonly_pubkey_tweak_add, secp256k1_xonly_pubkey_tweak_add(CTX, &out, &x, F.tweak)); ser_pk(e, &out);
    secp256k1_xonly_pubkey tx; int tpar = 0; unsigned char tb[32];
    C(secp256k1_xonly_pubkey_from_pubkey, secp256k1_xonly_pubkey_from_pubkey(CTX, &tx, &tpar, &out));
    C(secp256k1_xonly_pubkey_serialize, secp256k1_xonly_pubkey_serialize(CTX, tb, &tx), O(tb, 32));
    C(secp256k1_xonly_pubkey_tweak_add_check, secp256k1_xonly_pubkey_tweak_add_check(CTX, tb, tpar, &x, F.tweak));
    C(secp256k1_xonly_pubkey_tweak_add_check, secp256k1_xonly_pubkey_tweak_add_check(CTX, tb, !tpar, &x, F.tweak));
}
static void p_schnorr_sign(ProbeEnv &e) {
    unsigned char sig[64];
    C(secp256k1_schnorrsig_sign32, secp256k1_schnorrsig_sign32(CTX, sig, F.msg, &F.kp[0], F.aux), O(sig, 64));
    C(secp256k1_schnorrsig_sign32, secp256k1_schnorrsig_sign32(CTX, sig, F.msg, &F.kp[1], NULL), O(sig, 64));
}
static void p_schnorr_sign_custom(ProbeEnv &e) {
    unsigned char sig[64];
    secp256k1_schnorrsig_extraparams ep = SECP256K1_SCHNORRSIG_EXTRAPARAMS_INIT;
    ep.ndata = (void *)F.aux;
    C(secp256k1_schnorrsig_sign_custom, secp256k1_schnorrsig_sign_custom(CTX, sig, F.longmsg, 300, &F.kp[2], &ep), O(sig, 64));
    C(secp256k1_schnorrsig_sign_custom, secp256k1_schnorrsig_sign_custom(CTX, sig, F.longmsg, 0, &F.kp[2], NULL), O(sig, 64));
    { unsigned char sig0[64]; const unsigned char *volatile nomsg = NULL;
      C(secp256k1_schnorrsig_sign_custom, secp256k1_schnorrsig_sign_custom(CTX, sig0, nomsg, 0, &F.kp[2], NULL), O(sig0, 64));
      secp256k1_xonly_pubkey x2; C(secp256k1_keypair_xonly_pub, secp256k1_keypair_xonly_pub(CTX, &x2, NULL, &F.kp[2]));
      C(secp256k1_schnorrsig_verify, secp256k1_schnorrsig_verify(CTX, sig0, nomsg, 0, &x2)); }
    C(secp256k1_schnorrsig_sign_custom, secp256k1_schnorrsig_sign_custom(CTX, sig, F.longmsg, 65, &F.kp[3], &ep), O(sig, 64));
}
static void p_schnorr_verify(ProbeEnv &e) {
    C(secp256k1_schnorrsig_verify, secp256k1_schnorrsig_verify(CTX, F.ssig, F.msg, 32, &F.xpk[0]));
    C(secp256k1_schnorrsig_verify, secp256k1_schnorrsig_verify(CTX, F.ssig_long, F.longmsg, 300, &F.xpk[0]));
    C(secp256k1_schnorrsig_verify, secp256k1_schnorrsig_verify(CTX, F.ssig, F.msg, 32, &F.xpk[1]));
}
static void p_tagged(ProbeEnv &e) {
    unsigned char h[32];
    C(secp256k1_tagged_sha256, secp256k1_tagged_sha256(CTX, h, (const unsigned char *)"sim/tag", 7, F.longmsg, 211), O(h, 32));
}
static int custom_ecdh_hash(unsigned char *out, const unsigned char *x32, const unsigned char *y32, void *data) {
    g_seamc.hash_calls++;
    fiber_yield_point(-3);
    for (int i = 0; i < 32; i++) out[i] = x32[i] ^ y32[31 - i] ^ ((const unsigned char *)data)[i];
    return 1;
}
static void p_ecdh(ProbeEnv &e) {
    unsigned char o[32];
    C(secp256k1_ecdh, secp256k1_ecdh(CTX, o, &F.pk[1], F.sk[0], NULL, NULL), O(o, 32));
    C(secp256k1_ecdh, secp256k1_ecdh(CTX, o, &F.pk[0], F.sk[1], secp256k1_ecdh_hash_function_sha256, NULL), O(o, 32));
    C(secp256k1_ecdh, secp256k1_ecdh(CTX, o, &F.pk[2], F.sk[3], custom_ecdh_hash, (void *)F.extra), O(o, 32));
}
static void p_ellswift_create(ProbeEnv &e) {
    unsigned char ell[64];
    C(secp256k1_ellswift_create, secp256k1_ellswift_create(CTX, ell, F.sk[2], F.aux), O(ell, 64));
    C(secp256k1_ellswift_create, secp256k1_ellswift_create(CTX, ell, F.sk[3], NULL), O(ell, 64));
}
static void p_ellswift_codec(ProbeEnv &e) {
    unsigned char ell[64]; secp256k1_pubkey pk;
    C(secp256k1_ellswift_encode, secp256k1_ellswift_encode(CTX, ell, &F.pk[1], F.aux), O(ell, 64));
    C(secp256k1_ellswift_decode, secp256k1_ellswift_decode(CTX, &pk, F.ell[0])); ser_pk(e, &pk);
    C(secp256k1_ellswift_decode, secp256k1_ellswift_decode(CTX, &pk, F.longmsg + 7)); ser_pk(e, &pk);
}
static int custom_xdh_hash(unsigned char *out, const unsigned char *x32, const unsigned char *a, const unsigned char *b, void *data) {
    g_seamc.hash_calls++;
    fiber_yield_point(-4);
    for (int i = 0; i < 32; i++) out[i] = x32[i] ^ a[i] ^ b[63 - i] ^ ((const unsigned char *)data)[i];
    return 1;
}
static void p_ellswift_xdh(ProbeEnv &e) {
    unsigned char o[32];
    C(secp256k1_ellswift_xdh, secp256k1_ellswift_xdh(CTX, o, F.ell[0], F.ell[1], F.sk[0], 0, secp256k1_ellswift_xdh_hash_function_bip324, NULL), O(o, 32));
    C(secp256k1_ellswift_xdh, secp256k1_ellswift_xdh(CTX, o, F.ell[0], F.ell[1], F.sk[1], 1, secp256k1_ellswift_xdh_hash_function_prefix, (void *)F.longmsg), O(o, 32));
    C(secp256k1_ellswift_xdh, secp256k1_ellswift_xdh(CTX, o, F.ell[0], F.ell[1], F.sk[1], 1, custom_xdh_hash, (void *)F.extra), O(o, 32));
}

// complete local MuSig session (3 signers, plain + x-only tweak, optional adaptor)
static void musig_session(ProbeEnv &e, bool adaptor) {
    const secp256k1_pubkey *pks[3] = {&F.pk[0], &F.pk[1], &F.pk[2]};
    secp256k1_musig_keyagg_cache cache; secp256k1_xonly_pubkey agg; secp256k1_pubkey tw; unsigned char xb[32];
    C(secp256k1_musig_pubkey_agg, secp256k1_musig_pubkey_agg(CTX, &agg, &cache, pks, 3));
    C(secp256k1_xonly_pubkey_serialize, secp256k1_xonly_pubkey_serialize(CTX, xb, &agg), O(xb, 32));
    C(secp256k1_musig_pubkey_ec_tweak_add, secp256k1_musig_pubkey_ec_tweak_add(CTX, &tw, &cache, F.mu_tweak_plain)); ser_pk(e, &tw);
    C(secp256k1_musig_pubkey_xonly_tweak_add, secp256k1_musig_pubkey_xonly_tweak_add(CTX, &tw, &cache, F.mu_tweak_x)); ser_pk(e, &tw);
    C(secp256k1_musig_pubkey_get, secp256k1_musig_pubkey_get(CTX, &tw, &cache)); ser_pk(e, &tw);
    secp256k1_musig_secnonce sn[3]; secp256k1_musig_pubnonce pn[3]; const secp256k1_musig_pubnonce *pnp[3]; unsigned char b66[66];
    for (int i = 0; i < 3; i++) {
        unsigned char sr[32]; memcpy(sr, F.mu_secrand[i], 32);
        C(secp256k1_musig_nonce_gen, secp256k1_musig_nonce_gen(CTX, &sn[i], &pn[i], sr, F.sk[i], &F.pk[i], F.msg, &cache, F.extra), O(sr, 32));
        C(secp256k1_musig_pubnonce_serialize, secp256k1_musig_pubnonce_serialize(CTX, b66, &pn[i]), O(b66, 66));
        pnp[i] = &pn[i];
    }
    secp256k1_musig_aggnonce an; secp256k1_musig_session sess;
    C(secp256k1_musig_nonce_agg, secp256k1_musig_nonce_agg(CTX, &an, pnp, 3));
    C(secp256k1_musig_aggnonce_serialize, secp256k1_musig_aggnonce_serialize(CTX, b66, &an), O(b66, 66));
    C(secp256k1_musig_nonce_process, secp256k1_musig_nonce_process(CTX, &sess, &an, F.msg, &cache, adaptor ? &F.pk[3] : NULL));
    secp256k1_musig_partial_sig ps[3]; const secp256k1_musig_partial_sig *psp[3]; unsigned char b32[32];
    for (int i = 0; i < 3; i++) {
        C(secp256k1_musig_partial_sign, secp256k1_musig_partial_sign(CTX, &ps[i], &sn[i], &F.kp[i], &cache, &sess), O(&sn[i], sizeof sn[i]));
        C(secp256k1_musig_partial_sig_serialize, secp256k1_musig_partial_sig_serialize(CTX, b32, &ps[i]), O(b32, 32));
        C(secp256k1_musig_partial_sig_verify, secp256k1_musig_partial_sig_verify(CTX, &ps[i], &pn[i], &F.pk[i], &cache, &sess));
        psp[i] = &ps[i];
    }
    unsigned char sig[64];
    C(secp256k1_musig_partial_sig_agg, secp256k1_musig_partial_sig_agg(CTX, sig, &sess, psp, 3), O(sig, 64));
    if (adaptor) {
        int par = -1; unsigned char fin[64], t[32];
        C(secp256k1_musig_nonce_parity, secp256k1_musig_nonce_parity(CTX, &par, &sess), O(&par, sizeof par));
        C(secp256k1_musig_adapt, secp256k1_musig_adapt(CTX, fin, sig, F.sk[3], par), O(fin, 64));
        C(secp256k1_musig_extract_adaptor, secp256k1_musig_extract_adaptor(CTX, t, fin, sig, par), O(t, 32));
        memcpy(sig, fin, 64);
    }
    secp256k1_xonly_pubkey fx_;
    C(secp256k1_xonly_pubkey_from_pubkey, secp256k1_xonly_pubkey_from_pubkey(CTX, &fx_, NULL, &tw));
    C(secp256k1_schnorrsig_verify, secp256k1_schnorrsig_verify(CTX, sig, F.msg, 32, &fx_));
}
static void p_musig(ProbeEnv &e) { musig_session(e, false); }
static void p_musig_adaptor(ProbeEnv &e) { musig_session(e, true); }
// verifier/aggregator side only, from serialised fixtures (no secret-key operation)
static void p_musig_verify_side(ProbeEnv &e) {
    const secp256k1_pubkey *pks[3] = {&F.pk[0], &F.pk[1], &F.pk[2]};
    secp256k1_musig_keyagg_cache cache; secp256k1_pubkey tw;
    C(secp256k1_musig_pubkey_agg, secp256k1_musig_pubkey_agg(CTX, NULL, &cache, pks, 3));
    C(secp256k1_musig_pubkey_ec_tweak_add, secp256k1_musig_pubkey_ec_tweak_add(CTX, NULL, &cache, F.mu_tweak_plain));
    C(secp256k1_musig_pubkey_xonly_tweak_add, secp256k1_musig_pubkey_xonly_tweak_add(CTX, &tw, &cache, F.mu_tweak_x)); ser_pk(e, &tw);
    secp256k1_musig_pubnonce pn[3]; const secp256k1_musig_pubnonce *pnp[3]; unsigned char b66[66];
    for (int i = 0; i < 3; i++) { C(secp256k1_musig_pubnonce_parse, secp256k1_musig_pubnonce_parse(CTX, &pn[i], F.mu_pubnonce[i])); pnp[i] = &pn[i]; }
    secp256k1_musig_aggnonce an, an2; secp256k1_musig_session sess;
    C(secp256k1_musig_nonce_agg, secp256k1_musig_nonce_agg(CTX, &an, pnp, 3));
    C(secp256k1_musig_aggnonce_serialize, secp256k1_musig_aggnonce_serialize(CTX, b66, &an), O(b66, 66));
    C(secp256k1_musig_aggnonce_parse, secp256k1_musig_aggnonce_parse(CTX, &an2, F.mu_aggnonce));
    C(secp256k1_musig_nonce_process, secp256k1_musig_nonce_process(CTX, &sess, &an2, F.msg, &cache, NULL));
    secp256k1_musig_partial_sig ps[3]; const secp256k1_musig_partial_sig *psp[3];
    for (int i = 0; i < 3; i++) {
        C(secp256k1_musig_partial_sig_parse, secp256k1_musig_partial_sig_parse(CTX, &ps[i], F.mu_psig[i]));
        C(secp256k1_musig_partial_sig_verify, secp256k1_musig_partial_sig_verify(CTX, &ps[i], &pn[i], &F.pk[i], &cache, &sess));
        C(secp256k1_musig_partial_sig_verify, secp256k1_musig_partial_sig_verify(CTX, &ps[i], &pn[(i + 1) % 3], &F.pk[i], &cache, &sess));
        psp[i] = &ps[i];
    }
    unsigned char sig[64];
    C(secp256k1_musig_partial_sig_agg, secp256k1_musig_partial_sig_agg(CTX, sig, &sess, psp, 3), O(sig, 64));
    // adaptor side, from the serialised fixtures of the adaptor session
    secp256k1_musig_session sa; int par = -1; unsigned char fin[64], t[32];
    C(secp256k1_musig_nonce_process, secp256k1_musig_nonce_process(CTX, &sa, &an2, F.msg, &cache, &F.pk[3]));
    C(secp256k1_musig_nonce_parity, secp256k1_musig_nonce_parity(CTX, &par, &sa), O(&par, sizeof par));
    C(secp256k1_musig_adapt, secp256k1_musig_adapt(CTX, fin, F.mu_presig, F.sk[3], par & 1), O(fin, 64));
    C(secp256k1_musig_extract_adaptor, secp256k1_musig_extract_adaptor(CTX, t, fin, F.mu_presig, par & 1), O(t, 32));
    secp256k1_xonly_pubkey xq;
    C(secp256k1_xonly_pubkey_from_pubkey, secp256k1_xonly_pubkey_from_pubkey(CTX, &xq, NULL, &tw));
    C(secp256k1_schnorrsig_verify, secp256k1_schnorrsig_verify(CTX, fin, F.msg, 32, &xq));
}
// reading a keypair object (no secret-key *operation*): accepted by every context
static void p_keypair_read(ProbeEnv &e) {
    unsigned char sk[32], xb[32]; secp256k1_pubkey pk; secp256k1_xonly_pubkey x; int par = -1;
    C(secp256k1_keypair_sec, secp256k1_keypair_sec(CTX, sk, &F.kp[3]), O(sk, 32));
    C(secp256k1_keypair_pub, secp256k1_keypair_pub(CTX, &pk, &F.kp[3])); ser_pk(e, &pk);
    C(secp256k1_keypair_xonly_pub, secp256k1_keypair_xonly_pub(CTX, &x, &par, &F.kp[3]), O(&par, sizeof par));
    C(secp256k1_xonly_pubkey_serialize, secp256k1_xonly_pubkey_serialize(CTX, xb, &x), O(xb, 32));
}
// a keypair object whose public half was replaced by another valid key where it was kept (a torn write of the 96-byte record):
// not something the API produces, but still plain bytes - what comes out must not depend on which context does the work
static void p_keypair_mixed(ProbeEnv &e) {
    secp256k1_keypair kp = F.kp[0]; memcpy(kp.data + 32, F.kp[1].data + 32, 64);
    secp256k1_keypair t = kp;
    C(secp256k1_keypair_xonly_tweak_add, secp256k1_keypair_xonly_tweak_add(CTX, &t, F.tweak), O(t.data, sizeof t.data));
    unsigned char sk[32], xb[32], sig[64]; secp256k1_pubkey pk; secp256k1_xonly_pubkey x; int par = -1;
    C(secp256k1_keypair_sec, secp256k1_keypair_sec(CTX, sk, &kp), O(sk, 32));
    C(secp256k1_keypair_pub, secp256k1_keypair_pub(CTX, &pk, &kp)); ser_pk(e, &pk);
    C(secp256k1_keypair_xonly_pub, secp256k1_keypair_xonly_pub(CTX, &x, &par, &kp), O(&par, sizeof par));
    C(secp256k1_xonly_pubkey_serialize, secp256k1_xonly_pubkey_serialize(CTX, xb, &x), O(xb, 32));
    C(secp256k1_schnorrsig_sign32, secp256k1_schnorrsig_sign32(CTX, sig, F.msg, &kp, F.aux), O(sig, 64));
}
// callbacks that fail: the failure path through the shared / static / any context
static int failing_nonce(unsigned char *, const unsigned char *, const unsigned char *, const unsigned char *, void *, unsigned int) { g_seamc.nonce_calls++; fiber_yield_point(-6); return 0; }
static int failing_nonce_h(unsigned char *, const unsigned char *, size_t, const unsigned char *, const unsigned char *, const unsigned char *, size_t, void *) { g_seamc.nonce_calls++; fiber_yield_point(-6); return 0; }
static int failing_nonce_a(unsigned char *, const unsigned char *, const unsigned char *, const unsigned char *, const unsigned char *, size_t, void *) { g_seamc.nonce_calls++; fiber_yield_point(-6); return 0; }
static int failing_ecdh_hash(unsigned char *, const unsigned char *, const unsigned char *, void *) { g_seamc.hash_calls++; fiber_yield_point(-7); return 0; }
static int failing_xdh_hash(unsigned char *, const unsigned char *, const unsigned char *, const unsigned char *, void *) { g_seamc.hash_calls++; fiber_yield_point(-7); return 0; }
static void p_failing_callbacks(ProbeEnv &e) {
    unsigned char o[32];
    C(secp256k1_ecdh, secp256k1_ecdh(CTX, o, &F.pk[1], F.sk[0], failing_ecdh_hash, NULL));
    C(secp256k1_ellswift_xdh, secp256k1_ellswift_xdh(CTX, o, F.ell[0], F.ell[1], F.sk[0], 0, failing_xdh_hash, NULL));
    secp256k1_ecdsa_signature s; unsigned char b[64];
    C(secp256k1_ecdsa_sign, secp256k1_ecdsa_sign(CTX, &s, F.msg, F.sk[0], failing_nonce, NULL));
    C(secp256k1_ecdsa_signature_serialize_compact, secp256k1_ecdsa_signature_serialize_compact(CTX, b, &s), O(b, 64));
    secp256k1_ecdsa_recoverable_signature rs; int recid = -1;
    C(secp256k1_ecdsa_sign_recoverable, secp256k1_ecdsa_sign_recoverable(CTX, &rs, F.msg, F.sk[0], failing_nonce, NULL));
    C(secp256k1_ecdsa_recoverable_signature_serialize_compact, secp256k1_ecdsa_recoverable_signature_serialize_compact(CTX, b, &recid, &rs), O(b, 64), O(&recid, sizeof recid));
    unsigned char sig[64]; secp256k1_schnorrsig_extraparams ep = SECP256K1_SCHNORRSIG_EXTRAPARAMS_INIT; ep.noncefp = failing_nonce_h;
    C(secp256k1_schnorrsig_sign_custom, secp256k1_schnorrsig_sign_custom(CTX, sig, F.longmsg, 40, &F.kp[0], &ep), O(sig, 64));
    unsigned char a[162], skc[32]; memcpy(skc, F.sk[0], 32);
    C(secp256k1_ecdsa_adaptor_encrypt, secp256k1_ecdsa_adaptor_encrypt(CTX, a, skc, &F.pk[1], F.msg, failing_nonce_a, NULL), O(a, 162));
}
static void p_musig_counter(ProbeEnv &e) {
    secp256k1_musig_secnonce sn; secp256k1_musig_pubnonce pn; unsigned char b66[66];
    C(secp256k1_musig_nonce_gen_counter, secp256k1_musig_nonce_gen_counter(CTX, &sn, &pn, 0x0123456789abcdefULL, &F.kp[1], F.msg, NULL, NULL));
    C(secp256k1_musig_pubnonce_serialize, secp256k1_musig_pubnonce_serialize(CTX, b66, &pn), O(b66, 66));
}
static void p_adaptor_encrypt(ProbeEnv &e) {
    unsigned char a[162], sk[32]; memcpy(sk, F.sk[0], 32);
    C(secp256k1_ecdsa_adaptor_encrypt, secp256k1_ecdsa_adaptor_encrypt(CTX, a, sk, &F.pk[1], F.msg, NULL, NULL), O(a, 162), O(sk, 32));
    C(secp256k1_ecdsa_adaptor_encrypt, secp256k1_ecdsa_adaptor_encrypt(CTX, a, sk, &F.pk[2], F.msg_hi, secp256k1_nonce_function_ecdsa_adaptor, (void *)F.aux), O(a, 162));
}
static void p_adaptor_rest(ProbeEnv &e) {
    secp256k1_ecdsa_signature s; unsigned char dk[32];
    C(secp256k1_ecdsa_adaptor_verify, secp256k1_ecdsa_adaptor_verify(CTX, F.ad_sig, &F.pk[0], F.msg, &F.pk[1]));
    C(secp256k1_ecdsa_adaptor_verify, secp256k1_ecdsa_adaptor_verify(CTX, F.ad_sig, &F.pk[0], F.msg, &F.pk[2]));
    C(secp256k1_ecdsa_adaptor_decrypt, secp256k1_ecdsa_adaptor_decrypt(CTX, &s, F.sk[1], F.ad_sig)); ser_sig(e, &s);
    C(secp256k1_ecdsa_verify, secp256k1_ecdsa_verify(CTX, &s, F.msg, &F.pk[0]));
    C(secp256k1_ecdsa_adaptor_recover, secp256k1_ecdsa_adaptor_recover(CTX, dk, &s, F.ad_sig, &F.pk[1]), O(dk, 32));
}
static void p_s2c_sign(ProbeEnv &e) {
    secp256k1_ecdsa_signature s; secp256k1_ecdsa_s2c_opening op; unsigned char b[33];
    C(secp256k1_ecdsa_s2c_sign, secp256k1_ecdsa_s2c_sign(CTX, &s, &op, F.msg, F.sk[0], F.s2c_data)); ser_sig(e, &s);
    C(secp256k1_ecdsa_s2c_opening_serialize, secp256k1_ecdsa_s2c_opening_serialize(CTX, b, &op), O(b, 33));
}
static void p_s2c_verify(ProbeEnv &e) {
    secp256k1_ecdsa_signature s; secp256k1_ecdsa_s2c_opening op; unsigned char b[33];
    C(secp256k1_ecdsa_signature_parse_compact, secp256k1_ecdsa_signature_parse_compact(CTX, &s, F.s2c_sig64));
    C(secp256k1_ecdsa_s2c_opening_parse, secp256k1_ecdsa_s2c_opening_parse(CTX, &op, F.s2c_open33));
    C(secp256k1_ecdsa_s2c_opening_serialize, secp256k1_ecdsa_s2c_opening_serialize(CTX, b, &op), O(b, 33));
    C(secp256k1_ecdsa_s2c_verify_commit, secp256k1_ecdsa_s2c_verify_commit(CTX, &s, F.s2c_data, &op));
    C(secp256k1_ecdsa_s2c_verify_commit, secp256k1_ecdsa_s2c_verify_commit(CTX, &s, F.extra, &op));
}
static void p_anti_exfil(ProbeEnv &e) {
    unsigned char c[32], b[33]; secp256k1_ecdsa_s2c_opening op; secp256k1_ecdsa_signature s;
    C(secp256k1_ecdsa_anti_exfil_host_commit, secp256k1_ecdsa_anti_exfil_host_commit(CTX, c, F.rho), O(c, 32));
    C(secp256k1_ecdsa_anti_exfil_signer_commit, secp256k1_ecdsa_anti_exfil_signer_commit(CTX, &op, F.msg, F.sk[0], c));
    C(secp256k1_ecdsa_s2c_opening_serialize, secp256k1_ecdsa_s2c_opening_serialize(CTX, b, &op), O(b, 33));
    C(secp256k1_anti_exfil_sign, secp256k1_anti_exfil_sign(CTX, &s, F.msg, F.sk[0], F.rho)); ser_sig(e, &s);
    C(secp256k1_anti_exfil_host_verify, secp256k1_anti_exfil_host_verify(CTX, &s, F.msg, &F.pk[0], F.rho, &op));
}
static void p_anti_exfil_verify(ProbeEnv &e) {
    secp256k1_ecdsa_s2c_opening op; secp256k1_ecdsa_signature s;
    C(secp256k1_ecdsa_s2c_opening_parse, secp256k1_ecdsa_s2c_opening_parse(CTX, &op, F.ae_open33));
    C(secp256k1_ecdsa_signature_parse_compact, secp256k1_ecdsa_signature_parse_compact(CTX, &s, F.ae_sig64));
    C(secp256k1_anti_exfil_host_verify, secp256k1_anti_exfil_host_verify(CTX, &s, F.msg, &F.pk[0], F.rho, &op));
    C(secp256k1_anti_exfil_host_verify, secp256k1_anti_exfil_host_verify(CTX, &s, F.msg, &F.pk[0], F.extra, &op));
}
static void p_generator(ProbeEnv &e) {
    secp256k1_generator g; unsigned char b[33];
    C(secp256k1_generator_generate, secp256k1_generator_generate(CTX, &g, F.gen_seed));
    C(secp256k1_generator_serialize, secp256k1_generator_serialize(CTX, b, &g), O(b, 33));
    C(secp256k1_generator_parse, secp256k1_generator_parse(CTX, &g, F.gen33));
    C(secp256k1_generator_serialize, secp256k1_generator_serialize(CTX, b, &g), O(b, 33));
}
static void p_generator_blinded(ProbeEnv &e) {
    secp256k1_generator g; unsigned char b[33];
    C(secp256k1_generator_generate_blinded, secp256k1_generator_generate_blinded(CTX, &g, F.gen_seed, F.gen_blind));
    C(secp256k1_generator_serialize, secp256k1_generator_serialize(CTX, b, &g), O(b, 33));
}
static void p_pedersen_commit(ProbeEnv &e) {
    secp256k1_pedersen_commitment c; unsigned char b[33];
    C(secp256k1_pedersen_commit, secp256k1_pedersen_commit(CTX, &c, F.blind[1], F.value[1], &F.gen));
    C(secp256k1_pedersen_commitment_serialize, secp256k1_pedersen_commitment_serialize(CTX, b, &c), O(b, 33));
    C(secp256k1_pedersen_commit, secp256k1_pedersen_commit(CTX, &c, F.blind[2], 0xffffffffffffffffULL, secp256k1_generator_h));
    C(secp256k1_pedersen_commitment_serialize, secp256k1_pedersen_commitment_serialize(CTX, b, &c), O(b, 33));
}
static void p_pedersen_rest(ProbeEnv &e) {
    unsigned char bs[32]; const unsigned char *bl[2] = {F.blind[1], F.blind[2]};
    C(secp256k1_pedersen_blind_sum, secp256k1_pedersen_blind_sum(CTX, bs, bl, 2, 1), O(bs, 32));
    secp256k1_pedersen_commitment c[3]; unsigned char b[33];
    for (int i = 0; i < 3; i++) C(secp256k1_pedersen_commitment_parse, secp256k1_pedersen_commitment_parse(CTX, &c[i], F.commit33[i]));
    C(secp256k1_pedersen_commitment_serialize, secp256k1_pedersen_commitment_serialize(CTX, b, &c[0]), O(b, 33));
    const secp256k1_pedersen_commitment *pos[1] = {&c[0]}, *ng[2] = {&c[1], &c[2]};
    C(secp256k1_pedersen_verify_tally, secp256k1_pedersen_verify_tally(CTX, pos, 1, ng, 2));
    C(secp256k1_pedersen_verify_tally, secp256k1_pedersen_verify_tally(CTX, ng, 2, pos, 1));
    C(secp256k1_pedersen_verify_tally, secp256k1_pedersen_verify_tally(CTX, pos, 1, ng, 1));
    uint64_t vals[3] = {F.value[1], F.value[2], F.value[0]};
    unsigned char gb[3][32], bf[3][32];
    for (int i = 0; i < 3; i++) { memcpy(gb[i], F.sj_bk[i], 32); memcpy(bf[i], F.blind[i], 32); }
    const unsigned char *gbp[3] = {gb[0], gb[1], gb[2]}; unsigned char *bfp[3] = {bf[0], bf[1], bf[2]};
    C(secp256k1_pedersen_blind_generator_blind_sum, secp256k1_pedersen_blind_generator_blind_sum(CTX, vals, gbp, bfp, 3, 2), O(bf[2], 32));
}
static void p_rangeproof_sign(ProbeEnv &e) {
    unsigned char proof[5134]; size_t pl = sizeof proof;
    C(secp256k1_rangeproof_sign, secp256k1_rangeproof_sign(CTX, proof, &pl, 0, &F.commit[2], F.blind[2], F.rp_nonce, 2, 10, F.value[2], F.rp_msg, 20, F.rp_extra, 5, &F.gen), O(&pl, sizeof pl), O(proof, pl <= sizeof proof ? pl : 0));
}
static void p_rangeproof_verify(ProbeEnv &e) {
    uint64_t mn = 0, mx = 0; int ex = 0, mant = 0;
    C(secp256k1_rangeproof_info, secp256k1_rangeproof_info(CTX, &ex, &mant, &mn, &mx, F.rp_proof, F.rp_len), O(&ex, sizeof ex), O(&mant, sizeof mant), O(&mn, 8), O(&mx, 8));
    g_cur_api_id = api_id("secp256k1_rangeproof_max_size");
    { int64_t i0 = g_mon.illegal_here(); size_t ms = L(secp256k1_rangeproof_max_size(CTX, 0xffffffffULL, 0)); if (!e.call("secp256k1_rangeproof_max_size", 1, i0, {O(&ms, sizeof ms)})) return; }
    C(secp256k1_rangeproof_verify, secp256k1_rangeproof_verify(CTX, &mn, &mx, &F.commit[1], F.rp_proof, F.rp_len, F.rp_extra, sizeof F.rp_extra, &F.gen), O(&mn, 8), O(&mx, 8));
    C(secp256k1_rangeproof_verify, secp256k1_rangeproof_verify(CTX, &mn, &mx, &F.commit[2], F.rp_proof, F.rp_len, F.rp_extra, sizeof F.rp_extra, &F.gen));
}
static void p_rangeproof_rewind(ProbeEnv &e) {
    unsigned char bo[32], mo[4096]; uint64_t vo = 0, mn = 0, mx = 0; size_t ol = sizeof mo;
    C(secp256k1_rangeproof_rewind, secp256k1_rangeproof_rewind(CTX, bo, &vo, mo, &ol, F.rp_nonce, &mn, &mx, &F.commit[1], F.rp_proof, F.rp_len, F.rp_extra, sizeof F.rp_extra, &F.gen),
      O(bo, 32), O(&vo, 8), O(&ol, sizeof ol), O(mo, ol <= sizeof mo ? ol : 0), O(&mn, 8), O(&mx, 8));
}
static void p_surjection_make(ProbeEnv &e) {
    secp256k1_surjectionproof proof; size_t idx = 99; unsigned char ser[SECP256K1_SURJECTIONPROOF_SERIALIZATION_BYTES_MAX]; size_t sl = sizeof ser;
    memset(&proof, 0, sizeof proof);
    C(secp256k1_surjectionproof_initialize, secp256k1_surjectionproof_initialize(CTX, &proof, &idx, F.sj_tags, SJ_INPUTS, 2, &F.sj_tags[SJ_INPUTS], 100, F.sj_seed), O(&idx, sizeof idx));
    C(secp256k1_surjectionproof_generate, secp256k1_surjectionproof_generate(CTX, &proof, F.sj_eph, SJ_INPUTS, &F.sj_eph[SJ_INPUTS], idx, F.sj_bk[idx % (SJ_INPUTS + 1)], F.sj_bk[SJ_INPUTS]));
    C(secp256k1_surjectionproof_serialize, secp256k1_surjectionproof_serialize(CTX, ser, &sl, &proof), O(&sl, sizeof sl), O(ser, sl <= sizeof ser ? sl : 0));
}
static void p_surjection_verify(ProbeEnv &e) {
    secp256k1_surjectionproof proof;
    C(secp256k1_surjectionproof_parse, secp256k1_surjectionproof_parse(CTX, &proof, F.sj_proof, F.sj_len));
    C(secp256k1_surjectionproof_verify, secp256k1_surjectionproof_verify(CTX, &proof, F.sj_eph, SJ_INPUTS, &F.sj_eph[SJ_INPUTS]));
    C(secp256k1_surjectionproof_verify, secp256k1_surjectionproof_verify(CTX, &proof, F.sj_eph, SJ_INPUTS, &F.sj_eph[0]));
}
static void p_surjection_info(ProbeEnv &e) {
    secp256k1_surjectionproof proof; unsigned char ser[SECP256K1_SURJECTIONPROOF_SERIALIZATION_BYTES_MAX]; size_t sl = sizeof ser;
    C(secp256k1_surjectionproof_parse, secp256k1_surjectionproof_parse(CTX, &proof, F.sj_proof, F.sj_len));
    C(secp256k1_surjectionproof_n_total_inputs, (int)secp256k1_surjectionproof_n_total_inputs(CTX, &proof));
    C(secp256k1_surjectionproof_n_used_inputs, (int)secp256k1_surjectionproof_n_used_inputs(CTX, &proof));
    C(secp256k1_surjectionproof_serialized_size, (int)secp256k1_surjectionproof_serialized_size(CTX, &proof));
    C(secp256k1_surjectionproof_serialize, secp256k1_surjectionproof_serialize(CTX, ser, &sl, &proof), O(&sl, sizeof sl), O(ser, sl <= sizeof ser ? sl : 0));
    secp256k1_surjectionproof *pp = NULL; size_t idx = 99;
    C(secp256k1_surjectionproof_allocate_initialized, secp256k1_surjectionproof_allocate_initialized(CTX, &pp, &idx, F.sj_tags, SJ_INPUTS, 2, &F.sj_tags[SJ_INPUTS], 100, F.sj_seed), O(&idx, sizeof idx));
    if (pp) { L(secp256k1_surjectionproof_destroy(pp)); }
}
static void p_whitelist_sign(ProbeEnv &e) {
    secp256k1_whitelist_signature ws; unsigned char ser[33 + 32 * WL_KEYS]; size_t sl = sizeof ser;
    memset(&ws, 0, sizeof ws);
    C(secp256k1_whitelist_sign, secp256k1_whitelist_sign(CTX, &ws, F.wl_on, F.wl_off, WL_KEYS, &F.wl_sub, F.wl_on_sk[2], F.wl_sum_sk[2], 2));
    C(secp256k1_whitelist_signature_serialize, secp256k1_whitelist_signature_serialize(CTX, ser, &sl, &ws), O(&sl, sizeof sl), O(ser, sl <= sizeof ser ? sl : 0));
}
static void p_whitelist_verify(ProbeEnv &e) {
    secp256k1_whitelist_signature ws; unsigned char ser[33 + 32 * WL_KEYS]; size_t sl = sizeof ser;
    C(secp256k1_whitelist_signature_parse, secp256k1_whitelist_signature_parse(CTX, &ws, F.wl_sig, F.wl_len));
    C(secp256k1_whitelist_signature_serialize, secp256k1_whitelist_signature_serialize(CTX, ser, &sl, &ws), O(&sl, sizeof sl), O(ser, sl <= sizeof ser ? sl : 0));
    C(secp256k1_whitelist_verify, secp256k1_whitelist_verify(CTX, &ws, F.wl_on, F.wl_off, WL_KEYS, &F.wl_sub));
    C(secp256k1_whitelist_verify, secp256k1_whitelist_verify(CTX, &ws, F.wl_off, F.wl_on, WL_KEYS, &F.wl_sub));
}
static void p_halfagg(ProbeEnv &e) {
    unsigned char agg[32 * (HA_N + 1)]; size_t al = sizeof agg;
    C(secp256k1_schnorrsig_aggregate, secp256k1_schnorrsig_aggregate(CTX, agg, &al, F.ha_pks, F.ha_msgs, F.ha_sigs, HA_N), O(&al, sizeof al), O(agg, sizeof agg));
    unsigned char inc[32 * (HA_N + 1)]; size_t il = sizeof inc;
    C(secp256k1_schnorrsig_inc_aggregate, secp256k1_schnorrsig_inc_aggregate(CTX, inc, &il, F.ha_pks, F.ha_msgs, F.ha_sigs, 0, 1), O(&il, sizeof il));
    il = sizeof inc;
    C(secp256k1_schnorrsig_inc_aggregate, secp256k1_schnorrsig_inc_aggregate(CTX, inc, &il, F.ha_pks, F.ha_msgs, F.ha_sigs + 64, 1, HA_N - 1), O(&il, sizeof il), O(inc, sizeof inc));
}
static void p_aggverify(ProbeEnv &e) {
    C(secp256k1_schnorrsig_aggverify, secp256k1_schnorrsig_aggverify(CTX, F.ha_pks, F.ha_msgs, HA_N, F.ha_agg, sizeof F.ha_agg));
    C(secp256k1_schnorrsig_aggverify, secp256k1_schnorrsig_aggverify(CTX, F.ha_pks, F.ha_msgs, HA_N - 1, F.ha_agg, sizeof F.ha_agg - 32));
}
static void p_bppp(ProbeEnv &e) {
    unsigned char ser[33 * 4]; size_t sl = sizeof ser;
    g_cur_api_id = api_id("secp256k1_bppp_generators_create");
    int64_t i0 = g_mon.illegal_here();
    secp256k1_bppp_generators *gs = L(secp256k1_bppp_generators_create(CTX, 4));
    if (!e.call("secp256k1_bppp_generators_create", gs != NULL, i0, {})) return;
    if (gs) {
        C(secp256k1_bppp_generators_serialize, secp256k1_bppp_generators_serialize(CTX, gs, ser, &sl), O(&sl, sizeof sl), O(ser, sizeof ser));
        L(secp256k1_bppp_generators_destroy(CTX, gs));
    }
    i0 = g_mon.illegal_here();
    g_cur_api_id = api_id("secp256k1_bppp_generators_parse");
    gs = L(secp256k1_bppp_generators_parse(CTX, F.bp_gens, sizeof F.bp_gens));
    if (!e.call("secp256k1_bppp_generators_parse", gs != NULL, i0, {})) return;
    if (gs) {
        sl = sizeof ser;
        C(secp256k1_bppp_generators_serialize, secp256k1_bppp_generators_serialize(CTX, gs, ser, &sl), O(&sl, sizeof sl), O(ser, sizeof ser));
        L(secp256k1_bppp_generators_destroy(CTX, gs));
    }
}

// a task-private context life cycle (ignores the shared context): legal to run concurrently with anything
static void p_ctx_private(ProbeEnv &e) {
    g_cur_api_id = api_id("secp256k1_context_create");
    int64_t i0 = g_mon.illegal_here();
    secp256k1_context *c = L(secp256k1_context_create(SECP256K1_CONTEXT_NONE));
    if (!e.call("secp256k1_context_create", c != NULL, i0, {})) return;
    if (!c) return;
    secp256k1_pubkey pk;
    C(secp256k1_context_randomize, secp256k1_context_randomize(c, F.aux));
    C(secp256k1_ec_pubkey_create, secp256k1_ec_pubkey_create(c, &pk, F.sk[1])); ser_pk(e, &pk);
    alignas(16) unsigned char mem[2048];
    size_t need = L(secp256k1_context_preallocated_clone_size(c));
    if (need <= sizeof mem) {
        i0 = g_mon.illegal_here();
        secp256k1_context *c2 = L(secp256k1_context_preallocated_clone(c, mem));
        if (e.call("secp256k1_context_preallocated_clone", c2 != NULL, i0, {}) && c2) {
            C(secp256k1_context_randomize, secp256k1_context_randomize(c2, NULL));
            C(secp256k1_ec_pubkey_create, secp256k1_ec_pubkey_create(c2, &pk, F.sk[2])); ser_pk(e, &pk);
            L(secp256k1_context_preallocated_destroy(c2));
        }
    }
    L(secp256k1_context_destroy(c));
}

// deliberate caller misuse through the const API (invalid objects): the illegal callback must be the only effect
#define CM(api, expr) do { int64_t _i0 = g_mon.illegal_here(); g_cur_api_id = api_id(#api); (void)L(expr); e.call_misuse(#api, _i0); } while (0)
static void p_misuse(ProbeEnv &e) {
    secp256k1_pubkey bad; memset(&bad, 0, sizeof bad);
    secp256k1_xonly_pubkey xbad; memset(&xbad, 0, sizeof xbad);
    secp256k1_musig_pubnonce pnbad; memset(&pnbad, 0, sizeof pnbad);
    const secp256k1_pubkey *srt[4] = {&F.pk[2], &bad, &F.pk[0], &F.pk[1]};
    unsigned char o[66]; size_t l = 33;
    CM(secp256k1_ec_pubkey_sort, secp256k1_ec_pubkey_sort(CTX, srt, 4));
    CM(secp256k1_ec_pubkey_cmp, secp256k1_ec_pubkey_cmp(CTX, &F.pk[0], &bad));
    CM(secp256k1_ec_pubkey_serialize, secp256k1_ec_pubkey_serialize(CTX, o, &l, &bad, SECP256K1_EC_COMPRESSED));
    CM(secp256k1_ecdsa_verify, secp256k1_ecdsa_verify(CTX, &F.esig, F.msg, &bad));
    CM(secp256k1_schnorrsig_verify, secp256k1_schnorrsig_verify(CTX, F.ssig, F.msg, 32, &xbad));
    CM(secp256k1_musig_pubnonce_serialize, secp256k1_musig_pubnonce_serialize(CTX, o, &pnbad));
    // and a correct call afterwards: unaffected
    secp256k1_ecdsa_signature s;
    C(secp256k1_ecdsa_signature_parse_compact, secp256k1_ecdsa_signature_parse_compact(CTX, &s, F.esig64));
    C(secp256k1_ecdsa_verify, secp256k1_ecdsa_verify(CTX, &s, F.msg, &F.pk[0]));
}

const std::vector<Probe> &probe_table() {
    static const std::vector<Probe> t = {
        {"pubkey_create", p_pubkey_create}, {"seckey_ops", p_seckey_ops}, {"pubkey_ops", p_pubkey_ops}, {"pubkey_codec", p_pubkey_codec},
        {"ecdsa_sign", p_ecdsa_sign}, {"ecdsa_sign_rfc", p_ecdsa_sign_rfc}, {"ecdsa_sign_custom", p_ecdsa_sign_custom}, {"ecdsa_sign_retry", p_ecdsa_sign_retry}, {"ecdsa_verify", p_ecdsa_verify},
        {"recoverable_sign", p_recoverable}, {"recover", p_recover}, {"keypair", p_keypair}, {"keypair_tweak", p_keypair_tweak}, {"xonly", p_xonly},
        {"schnorr_sign", p_schnorr_sign}, {"schnorr_sign_custom", p_schnorr_sign_custom}, {"schnorr_verify", p_schnorr_verify}, {"tagged_sha256", p_tagged},
        {"ecdh", p_ecdh}, {"ellswift_create", p_ellswift_create}, {"ellswift_codec", p_ellswift_codec}, {"ellswift_xdh", p_ellswift_xdh},
        {"musig", p_musig}, {"musig_adaptor", p_musig_adaptor}, {"musig_verify_side", p_musig_verify_side}, {"keypair_read", p_keypair_read}, {"keypair_mixed", p_keypair_mixed}, {"failing_callbacks", p_failing_callbacks}, {"musig_counter", p_musig_counter},
        {"adaptor_encrypt", p_adaptor_encrypt}, {"adaptor_rest", p_adaptor_rest}, {"s2c_sign", p_s2c_sign}, {"s2c_verify", p_s2c_verify},
        {"anti_exfil", p_anti_exfil}, {"anti_exfil_verify", p_anti_exfil_verify}, {"generator", p_generator}, {"generator_blinded", p_generator_blinded},
        {"pedersen_commit", p_pedersen_commit}, {"pedersen_rest", p_pedersen_rest}, {"rangeproof_sign", p_rangeproof_sign}, {"rangeproof_verify", p_rangeproof_verify},
        {"rangeproof_rewind", p_rangeproof_rewind}, {"surjection_make", p_surjection_make}, {"surjection_verify", p_surjection_verify}, {"surjection_info", p_surjection_info},
        {"whitelist_sign", p_whitelist_sign}, {"whitelist_verify", p_whitelist_verify}, {"halfagg", p_halfagg}, {"aggverify", p_aggverify}, {"bppp", p_bppp}, {"ctx_private", p_ctx_private}, {"misuse", p_misuse}, {"pubkey_edge", p_pubkey_edge},
    };
    return t;
}

}  // namespace sim
