// simworker: one process per worker; executes commands read as JSON lines on stdin and answers
// with one protocol line ("@@ {json}") per run, flushed.
#include "core.h"
#include "seams.h"
#include "ref/ref.h"
#include <cstdio>
#include <iostream>
#include <fstream>
#include <unistd.h>

using namespace sim;

extern "C" __attribute__((used)) const char *__asan_default_options() { return "exitcode=77:detect_leaks=0:abort_on_error=0:detect_stack_use_after_return=0"; }
extern "C" __attribute__((used)) const char *__ubsan_default_options() { return "halt_on_error=1:exitcode=77:print_stacktrace=1"; }

static void emit(const json &j) {
    std::string s = "@@ " + j.dump() + "\n";
    fwrite(s.data(), 1, s.size(), stdout);
    fflush(stdout);
}

static void run_plan(const World *w, const Plan &p, bool trace, Result &r) {
    g_mon.reset_run();
    r.keep_log = trace;
    ExecOpts o; o.trace = trace;
    w->execute(p, o, r);
}

static uint64_t world_id(const std::string &w) { return fnv1a(w.data(), w.size()); }

int main(int argc, char **argv) {
    const char *variant = argc > 1 ? argv[1] : "?";
    std::string line;
    // one-shot replay mode: simworker <variant> --replay file [--trace]
    if (argc >= 4 && std::string(argv[2]) == "--replay") {
        std::ifstream f(argv[3]);
        json j; f >> j;
        bool trace = argc >= 5 && std::string(argv[4]) == "--trace";
        Plan p = plan_from_json(j.contains("plan") ? j["plan"] : j);
        const World *w = find_world(p.world);
        if (!w) { fprintf(stderr, "unknown world %s\n", p.world.c_str()); return 2; }
        Result r1, r2;
        run_plan(w, p, trace, r1);
        run_plan(w, p, false, r2);
        json o = result_to_json(r1);
        o["deterministic"] = (r1.hist_hash == r2.hist_hash && r1.ok == r2.ok && r1.vclass == r2.vclass);
        o["variant"] = variant;
        emit(o);
        return 0;
    }
    while (std::getline(std::cin, line)) {
        if (line.empty()) continue;
        json cmd;
        try { cmd = json::parse(line); } catch (...) { emit({{"error", "bad json"}}); continue; }
        std::string c = cmd.value("cmd", "");
        if (c == "quit") break;
        if (c == "selftest") {
            std::string why;
            int rc = ref::selftest(&why);
            emit({{"selftest", rc}, {"why", why}});
            continue;
        }
        if (c == "worlds") {
            json a = json::array();
            for (auto w : all_worlds()) a.push_back({{"name", w->name}, {"property", w->property}});
            emit({{"worlds", a}});
            continue;
        }
        if (c == "genrun") {
            std::string wn = cmd.value("world", "");
            const World *w = find_world(wn);
            if (!w) { emit({{"error", "unknown world " + wn}}); continue; }
            uint64_t base = cmd.value("base", (uint64_t)1);
            int64_t from = cmd.value("from", (int64_t)0), to = cmd.value("to", (int64_t)0);
            int tier = cmd.value("tier", 0);
            int64_t nsamples = cmd.value("samples", (int64_t)0);
            for (int64_t i = from; i < to; i++) {
                uint64_t seed = mix3(base, world_id(wn), (uint64_t)i);
                Plan p = w->generate(seed, tier);
                p.world = wn; p.seed = seed;
                emit({{"start", i}});
                Result r;
                bool want_sample = i < nsamples;
                run_plan(w, p, want_sample, r);
                json o = result_to_json(r);
                o["i"] = i; o["seed"] = seed;
                char b[32]; snprintf(b, sizeof b, "%016llx", (unsigned long long)plan_hash(p)); o["ph"] = b;
                o["nops"] = p.ops.size();
                if (!r.ok || want_sample) o["plan"] = plan_to_json(p);
                emit(o);
            }
            emit({{"done", to}});
            continue;
        }
        if (c == "gen") {  // plan only
            std::string wn = cmd.value("world", "");
            const World *w = find_world(wn);
            if (!w) { emit({{"error", "unknown world " + wn}}); continue; }
            uint64_t base = cmd.value("base", (uint64_t)1);
            int64_t i = cmd.value("i", (int64_t)0);
            uint64_t seed = mix3(base, world_id(wn), (uint64_t)i);
            Plan p = w->generate(seed, cmd.value("tier", 0));
            p.world = wn; p.seed = seed;
            emit({{"plan", plan_to_json(p)}});
            continue;
        }
        if (c == "exec") {
            Plan p = plan_from_json(cmd["plan"]);
            const World *w = find_world(p.world);
            if (!w) { emit({{"error", "unknown world " + p.world}}); continue; }
            bool trace = cmd.value("trace", false);
            emit({{"start", -1}});
            Result r1;
            run_plan(w, p, trace, r1);
            json o = result_to_json(r1);
            if (cmd.value("twice", false)) {
                Result r2;
                run_plan(w, p, false, r2);
                o["deterministic"] = (r1.hist_hash == r2.hist_hash && r1.ok == r2.ok && r1.vclass == r2.vclass);
            }
            emit(o);
            continue;
        }
        emit({{"error", "unknown cmd"}});
    }
    return 0;
}
